import LWV.Lemmas.RtSafe
import LWV.Props.C09
/-
C09 (full) — the model of the radiotap parser (`Model.parseRadiotapInfo`, built on the model of the
vendored iterator) decodes radiotap headers exactly as the declarative specification
(`Spec.rtFields` / `Spec.rtValues`) says.
-/
set_option linter.unusedSimpArgs false
namespace LWV.Props.C09Full
open LWV LWV.Model

def valuesOf (i : RtInfo) : Spec.RtValues :=
  { length := i.length, chanFreq := i.chanFreq, chanFlags := i.chanFlags, chanCenter := i.chanCenter,
    chanBand := i.chanBand, rateRaw := i.rateRaw, signal := i.signal,
    antennas := i.antennas.take i.antennaCount, flags := i.flags, rxFlags := i.rxFlags, txFlags := i.txFlags,
    mcs := (i.mcsKnown, i.mcsFlags, i.mcsMcs), txPower := i.txPower,
    ts := (i.tsTimestamp, i.tsAccuracy, i.tsUnit, i.tsFlags), rtsRetries := i.rtsRetries,
    dataRetries := i.dataRetries }

theorem maxAnt : Gen.m_LIBWIFI_MAX_RADIOTAP_ANTENNAS = 16 := by decide

/-! ### reads -/

theorem leNat_take_succ (bs : Bytes) (i n : Nat) (h : i < bs.length) :
    leNat ((bs.drop i).take (n + 1)) = Spec.u8 bs i + 256 * leNat ((bs.drop (i + 1)).take n) := by
  rw [List.drop_eq_getElem_cons h, List.take_succ_cons]
  simp [leNat, Spec.u8, List.getD_eq_getElem?_getD, List.getElem?_eq_getElem h]

theorem leNat_take4 (bs : Bytes) (i : Nat) (h : i + 4 ≤ bs.length) :
    leNat ((bs.drop i).take 4) = Spec.u32 bs i := by
  rw [leNat_take_succ _ _ _ (by omega), leNat_take_succ _ _ _ (by omega), leNat_take_succ _ _ _ (by omega),
    leNat_take_succ _ _ _ (by omega)]
  simp only [List.take_zero, leNat, Spec.u32, Spec.u16, Nat.add_assoc, Nat.reduceAdd]
  omega

theorem leNat_take8 (bs : Bytes) (i : Nat) (h : i + 8 ≤ bs.length) :
    leNat ((bs.drop i).take 8) = Spec.u64 bs i := by
  rw [leNat_take_succ _ _ _ (by omega), leNat_take_succ _ _ _ (by omega), leNat_take_succ _ _ _ (by omega),
    leNat_take_succ _ _ _ (by omega), leNat_take_succ _ _ _ (by omega), leNat_take_succ _ _ _ (by omega),
    leNat_take_succ _ _ _ (by omega), leNat_take_succ _ _ _ (by omega)]
  simp only [List.take_zero, leNat, Spec.u64, Spec.u32, Spec.u16, Nat.add_assoc, Nat.reduceAdd]
  omega

theorem rd_u8 {what : String} {bs : Bytes} {i : Nat} (h : i < bs.length) :
    rd what bs i = .ok (bs.getD i 0) := rd_eq h

theorem le16At_u16 {what : String} {bs : Bytes} {i : Nat} (h : i + 2 ≤ bs.length) :
    le16At what bs i = .ok (Spec.u16 bs i) := by
  rw [le16At_eq h]; rfl

theorem le32At_u32 {what : String} {bs : Bytes} {i : Nat} (h : i + 4 ≤ bs.length) :
    le32At what bs i = .ok (Spec.u32 bs i) := by
  unfold le32At rdSlice
  rw [if_pos h]
  simp only [Outcome.bind_ok]
  rw [leNat_take4 bs i h]

theorem le64At_u64 {what : String} {bs : Bytes} {i : Nat} (h : i + 8 ≤ bs.length) :
    le64At what bs i = .ok (Spec.u64 bs i) := by
  rw [le64At_eq h, leNat_take8 bs i h]


theorem channel_lt (f : Nat) : (Spec.channelOf f).2 < 256 := by
  unfold Spec.channelOf
  repeat' split
  all_goals simp only []
  all_goals omega

theorem set_last {α} (l : List α) (x d : α) (h : 0 < l.length) :
    l.set (l.length - 1) x = l.dropLast ++ [x] ∧ l.getLast? = some (l.getD (l.length - 1) d) := by
  have hne : l ≠ [] := by intro h'; rw [h'] at h; simp at h
  obtain ⟨l', y, rfl⟩ : ∃ l' y, l = l' ++ [y] := ⟨l.dropLast, l.getLast hne, (List.dropLast_concat_getLast hne).symm⟩
  simp

theorem rtField_other (bs : Bytes) (it : RtIt) (st : RtInfo × Bool)
    (hk : it.thisArgIndex ≠ 1 ∧ it.thisArgIndex ≠ 2 ∧ it.thisArgIndex ≠ 3 ∧ it.thisArgIndex ≠ 5 ∧ it.thisArgIndex ≠ 10 ∧
      it.thisArgIndex ≠ 11 ∧ it.thisArgIndex ≠ 14 ∧ it.thisArgIndex ≠ 15 ∧ it.thisArgIndex ≠ 16 ∧ it.thisArgIndex ≠ 17 ∧
      it.thisArgIndex ≠ 19 ∧ it.thisArgIndex ≠ 22) : rtField bs it st = .ok st := by
  unfold rtField
  simp only []
  split
  all_goals first
    | rfl
    | (exfalso; omega)

theorem valueStep_other (bs : Bytes) (m : Nat) (s : Spec.RtValues × Bool) (f : Spec.RtField)
    (hk : f.field ≠ 1 ∧ f.field ≠ 2 ∧ f.field ≠ 3 ∧ f.field ≠ 5 ∧ f.field ≠ 10 ∧
      f.field ≠ 11 ∧ f.field ≠ 14 ∧ f.field ≠ 15 ∧ f.field ≠ 16 ∧ f.field ≠ 17 ∧
      f.field ≠ 19 ∧ f.field ≠ 22) : Spec.valueStep bs m s f = s := by
  unfold Spec.valueStep
  simp only []
  split
  all_goals first
    | rfl
    | (exfalso; omega)

theorem rtField_sim {bs : Bytes} {it : RtIt} (acc : RtInfo × Bool)
    (hlen : acc.1.antennas.length = acc.1.antennaCount) (hok : RtArgOk bs it) :
    ∃ acc', rtField bs it acc = .ok acc' ∧ acc'.1.antennas.length = acc'.1.antennaCount ∧
      (valuesOf acc'.1, acc'.2) = Spec.valueStep bs 16 (valuesOf acc.1, acc.2) ⟨it.thisArgIndex, it.thisArg⟩ := by
  obtain ⟨s1, s2, s3, s5, s10, s11, s14, s15, s16, s17, s19, s22⟩ := rtSize_handled
  by_cases hdef : it.thisArgIndex ≠ 1 ∧ it.thisArgIndex ≠ 2 ∧ it.thisArgIndex ≠ 3 ∧ it.thisArgIndex ≠ 5 ∧
      it.thisArgIndex ≠ 10 ∧ it.thisArgIndex ≠ 11 ∧ it.thisArgIndex ≠ 14 ∧ it.thisArgIndex ≠ 15 ∧ it.thisArgIndex ≠ 16 ∧
      it.thisArgIndex ≠ 17 ∧ it.thisArgIndex ≠ 19 ∧ it.thisArgIndex ≠ 22
  · rw [rtField_other bs it acc hdef, valueStep_other bs 16 _ ⟨it.thisArgIndex, it.thisArg⟩ hdef]
    exact ⟨_, rfl, hlen, rfl⟩
  obtain ⟨info, sk⟩ := acc
  simp only [] at hlen
  unfold RtArgOk at hok
  unfold rtField Spec.valueStep
  simp only []
  generalize it.thisArgIndex = k at *
  generalize it.thisArg = a at *
  generalize it.thisArgSize = sz at *
  have hk : k = 1 ∨ k = 2 ∨ k = 3 ∨ k = 5 ∨ k = 10 ∨ k = 11 ∨ k = 14 ∨ k = 15 ∨ k = 16 ∨ k = 17 ∨ k = 19 ∨ k = 22 := by omega
  rcases hk with rfl | rfl | rfl | rfl | rfl | rfl | rfl | rfl | rfl | rfl | rfl | rfl
  · have hb : a + 1 ≤ bs.length := by rcases hok with h | h | ⟨h1, h2⟩ <;> omega
    simp (disch := omega) only [rd_eq, le16At_u16, le64At_u64, Outcome.bind_ok]
    exact ⟨_, rfl, hlen, rfl⟩
  · have hb : a + 1 ≤ bs.length := by rcases hok with h | h | ⟨h1, h2⟩ <;> omega
    simp (disch := omega) only [rd_eq, le16At_u16, le64At_u64, Outcome.bind_ok]
    exact ⟨_, rfl, hlen, rfl⟩
  · have hb : a + 4 ≤ bs.length := by rcases hok with h | h | ⟨h1, h2⟩ <;> omega
    simp (disch := omega) only [rd_eq, le16At_u16, le64At_u64, Outcome.bind_ok]
    refine ⟨_, rfl, hlen, ?_⟩
    simp only [valuesOf, C09.C09_band, Nat.mod_eq_of_lt (channel_lt _)]
  · have hb : a + 1 ≤ bs.length := by rcases hok with h | h | ⟨h1, h2⟩ <;> omega
    simp (disch := omega) only [rd_eq, le16At_u16, le64At_u64, Outcome.bind_ok]
    have htake : List.take info.antennaCount info.antennas = info.antennas := by rw [← hlen, List.take_length]
    rw [maxAnt]
    cases sk with
    | false => exact ⟨_, rfl, hlen, rfl⟩
    | true =>
      simp only [valuesOf, htake, hlen]
      by_cases hc : info.antennaCount < 16
      · simp only [hc, if_true, Bool.not_true, Bool.false_eq_true, if_false, not_true_eq_false]
        refine ⟨_, rfl, by simp only [List.length_append, List.length_cons, List.length_nil, hlen], ?_⟩
        simp only []
        rw [List.take_of_length_le (by simp [hlen])]
        rfl
      · simp only [hc, if_false, Bool.not_true, Bool.false_eq_true, not_true_eq_false]
        exact ⟨_, rfl, hlen, by simp only [htake]⟩
  · have hb : a + 1 ≤ bs.length := by rcases hok with h | h | ⟨h1, h2⟩ <;> omega
    simp (disch := omega) only [rd_eq, le16At_u16, le64At_u64, Outcome.bind_ok]
    exact ⟨_, rfl, hlen, rfl⟩
  · have hb : a + 1 ≤ bs.length := by rcases hok with h | h | ⟨h1, h2⟩ <;> omega
    simp (disch := omega) only [rd_eq, le16At_u16, le64At_u64, Outcome.bind_ok]
    have htake : List.take info.antennaCount info.antennas = info.antennas := by rw [← hlen, List.take_length]
    simp only [valuesOf, htake]
    by_cases hc : info.antennaCount > 0
    · obtain ⟨h1, h2⟩ := set_last info.antennas ((bs.getD a 0).toNat, (info.antennas.getD (info.antennas.length - 1) (0, 0)).snd) (0, 0) (by omega)
      simp only [hc, if_true, h2, setNth]
      refine ⟨_, rfl, by simp only [List.length_set, hlen], ?_⟩
      simp only []
      rw [List.take_of_length_le (by simp [hlen]), ← hlen, h1]
      rfl
    · have : info.antennas = [] := List.eq_nil_of_length_eq_zero (by omega)
      simp only [hc, if_false, this, List.getLast?_nil]
      exact ⟨_, rfl, hlen, by simp only [this, List.take_nil]⟩
  · have hb : a + 2 ≤ bs.length := by rcases hok with h | h | ⟨h1, h2⟩ <;> omega
    simp (disch := omega) only [rd_eq, le16At_u16, le64At_u64, Outcome.bind_ok]
    exact ⟨_, rfl, hlen, rfl⟩
  · have hb : a + 2 ≤ bs.length := by rcases hok with h | h | ⟨h1, h2⟩ <;> omega
    simp (disch := omega) only [rd_eq, le16At_u16, le64At_u64, Outcome.bind_ok]
    exact ⟨_, rfl, hlen, rfl⟩
  · have hb : a + 1 ≤ bs.length := by rcases hok with h | h | ⟨h1, h2⟩ <;> omega
    simp (disch := omega) only [rd_eq, le16At_u16, le64At_u64, Outcome.bind_ok]
    exact ⟨_, rfl, hlen, rfl⟩
  · have hb : a + 1 ≤ bs.length := by rcases hok with h | h | ⟨h1, h2⟩ <;> omega
    simp (disch := omega) only [rd_eq, le16At_u16, le64At_u64, Outcome.bind_ok]
    exact ⟨_, rfl, hlen, rfl⟩
  · have hb : a + 3 ≤ bs.length := by rcases hok with h | h | ⟨h1, h2⟩ <;> omega
    simp (disch := omega) only [rd_eq, le16At_u16, le64At_u64, Outcome.bind_ok]
    exact ⟨_, rfl, hlen, rfl⟩
  · have hb : a + 12 ≤ bs.length := by rcases hok with h | h | ⟨h1, h2⟩ <;> omega
    simp (disch := omega) only [rd_eq, le16At_u16, le64At_u64, Outcome.bind_ok]
    exact ⟨_, rfl, hlen, rfl⟩

theorem align_eq (off a : Nat) (ha : 0 < a) :
    (if off % a ≠ 0 then off + (a - off % a) else off) = Spec.alignUp off a := by
  unfold Spec.alignUp
  have hdm := Nat.div_add_mod off a
  have hlt := Nat.mod_lt off ha
  generalize off / a = q at hdm
  generalize off % a = r at hdm hlt ⊢
  by_cases hr : r = 0
  · subst hr
    simp only [ne_eq, not_true_eq_false, if_false]
    have : off + a - 1 = a * q + (a - 1) := by omega
    rw [this, Nat.mul_add_div ha, Nat.div_eq_of_lt (by omega), Nat.add_zero, Nat.mul_comm]; omega
  · simp only [ne_eq, hr, not_false_eq_true, if_true]
    have : off + a - 1 = a * (q + 1) + (r - 1) := by rw [Nat.mul_add]; omega
    rw [this, Nat.mul_add_div ha, Nat.div_eq_of_lt (by omega), Nat.add_zero, Nat.mul_comm, Nat.mul_add]; omega

theorem table_lookup_lt : ∀ b, b < 23 →
    Spec.rtTable.find? (fun e => e.1 == b) =
      if rtAlign b ≠ 0 then some (b, rtAlign b, rtSize b) else none := by decide +kernel

theorem table_fields_lt : ∀ e ∈ Spec.rtTable, e.1 < 23 := by decide

theorem table_lookup (b : Nat) :
    Spec.rtTable.find? (fun e => e.1 == b) =
      if b < Gen.rtapNBits ∧ rtAlign b ≠ 0 then some (b, rtAlign b, rtSize b) else none := by
  have hN : Gen.rtapNBits = 23 := by decide
  rw [hN]
  by_cases hb : b < 23
  · rw [table_lookup_lt b hb]; simp [hb]
  · have : ¬ (b < 23 ∧ rtAlign b ≠ 0) := fun h => hb h.1
    rw [if_neg this, List.find?_eq_none]
    intro e he
    have := table_fields_lt e he
    simp; omega

theorem rtNext_absent (bs : Bytes) (fuel : Nat) (it : RtIt) (hp : it.shifter % 2 = 0) (h31 : it.argIndex % 32 ≠ 31) :
    rtNext bs (fuel + 1) it = rtNext bs fuel (nextEntry it) := by
  rw [rtNext]
  simp [hp, h31]

theorem rtNext_end (bs : Bytes) (fuel : Nat) (it : RtIt) (hp : it.shifter % 2 = 0) (h31 : it.argIndex % 32 = 31) :
    rtNext bs (fuel + 1) it = .ok (.stop (-ENOENT)) := by
  rw [rtNext]
  simp [hp, h31]

theorem rtNext_beyond (bs : Bytes) (fuel : Nat) (it : RtIt) (hp : it.shifter % 2 = 1) (hb : it.argIndex % 32 < 29)
    (hns : it.inRadiotapNs = true) (hn : Gen.rtapNBits ≤ it.argIndex ∨ rtAlign it.argIndex = 0) :
    rtNext bs (fuel + 1) it = .ok (.stop (-ENOENT)) := by
  rw [rtNext]
  have h1 : it.argIndex % 32 ≠ 31 := by omega
  have h2 : it.argIndex % 32 ≠ 29 := by omega
  have h3 : it.argIndex % 32 ≠ 30 := by omega
  by_cases hN : Gen.rtapNBits ≤ it.argIndex
  · simp [hp, h1, h2, h3, hns, hN]
  · have ha : rtAlign it.argIndex = 0 := by rcases hn with h | h; exact absurd h hN; exact h
    simp [hp, h1, h2, h3, hns, hN, ha]

/-- in a vendor namespace (none is registered) a present field is skipped: the argument pointer is
moved to the end of the namespace's data -/
theorem rtNext_giveup (bs : Bytes) (fuel : Nat) (it : RtIt) (hp : it.shifter % 2 = 1) (hb : it.argIndex % 32 < 29)
    (h : it.inRadiotapNs = false) :
    rtNext bs (fuel + 1) it = rtNext bs fuel (nextEntry { it with arg := it.nextNsData, inRadiotapNs := false }) := by
  rw [rtNext]
  have h1 : it.argIndex % 32 ≠ 31 := by omega
  have h2 : it.argIndex % 32 ≠ 29 := by omega
  have h3 : it.argIndex % 32 ≠ 30 := by omega
  simp [hp, h1, h2, h3, h]

theorem rtNext_field (bs : Bytes) (fuel : Nat) (it : RtIt) (hp : it.shifter % 2 = 1) (hb : it.argIndex % 32 < 29)
    (hns : it.inRadiotapNs = true) (hn : it.argIndex < Gen.rtapNBits) (ha : rtAlign it.argIndex ≠ 0) :
    rtNext bs (fuel + 1) it =
      if Spec.alignUp it.arg (rtAlign it.argIndex) + rtSize it.argIndex > it.maxLength then .ok (.stop (-EINVAL))
      else .ok (.hit (nextEntry { it with thisArgIndex := it.argIndex, thisArg := Spec.alignUp it.arg (rtAlign it.argIndex),
                                          thisArgSize := rtSize it.argIndex,
                                          arg := Spec.alignUp it.arg (rtAlign it.argIndex) + rtSize it.argIndex })) := by
  rw [rtNext]
  have h1 : it.argIndex % 32 ≠ 31 := by omega
  have h2 : it.argIndex % 32 ≠ 29 := by omega
  have h3 : it.argIndex % 32 ≠ 30 := by omega
  have hn' : ¬ (Gen.rtapNBits ≤ it.argIndex) := by omega
  rw [← align_eq it.arg _ (Nat.pos_of_ne_zero ha)]
  simp [hp, h1, h2, h3, hns, hn', ha]


/-! ### Spec side: one step of `placeBits` -/

theorem placeBits_absent (itLen w n b : Nat) (st : Spec.Walk) (h : w.testBit b = false)
    (hs : st.stopped = false) (hb : st.bad = false) :
    Spec.placeBits itLen w (n + 1) b st = Spec.placeBits itLen w n (b + 1) st := by
  rw [Spec.placeBits]
  simp [h, hs, hb]

theorem placeBits_done (itLen w n b : Nat) (st : Spec.Walk) (h : (st.stopped || st.bad) = true) :
    Spec.placeBits itLen w n b st = st := by
  cases n with
  | zero => rfl
  | succ n => rw [Spec.placeBits]; simp only [h, if_true]

theorem placeBits_rt (itLen w n b : Nat) (st : Spec.Walk) (h : w.testBit b = true)
    (hs : st.stopped = false) (hb : st.bad = false) (hns : st.ns = .radiotap) :
    Spec.placeBits itLen w (n + 1) b st =
      if st.base + b < Gen.rtapNBits ∧ rtAlign (st.base + b) ≠ 0 then
        if Spec.alignUp st.off (rtAlign (st.base + b)) + rtSize (st.base + b) > itLen then { st with bad := true }
        else Spec.placeBits itLen w n (b + 1)
          { st with off := Spec.alignUp st.off (rtAlign (st.base + b)) + rtSize (st.base + b),
                    fields := st.fields ++ [⟨st.base + b, Spec.alignUp st.off (rtAlign (st.base + b))⟩] }
      else { st with stopped := true } := by
  rw [Spec.placeBits]
  by_cases hc : st.base + b < Gen.rtapNBits ∧ rtAlign (st.base + b) ≠ 0
  · rw [table_lookup, if_pos hc, if_pos hc]
    simp only [h, hs, hb, hns, Bool.or_self, Bool.false_eq_true, if_false, if_true]
  · rw [table_lookup, if_neg hc, if_neg hc]
    simp only [h, hs, hb, hns, Bool.or_self, Bool.false_eq_true, if_false, if_true]


/-! ### single present word: the iterator against `placeBits` -/

theorem div_pow_zero {w b : Nat} (hw : w < 2 ^ 29) (hb : 29 ≤ b) : w / 2 ^ b = 0 :=
  Nat.div_eq_of_lt (Nat.lt_of_lt_of_le hw (Nat.pow_le_pow_right (by decide) hb))

theorem testBit_shifter (w b : Nat) : w.testBit b = decide (w / 2 ^ b % 2 = 1) :=
  Nat.testBit_eq_decide_div_mod_eq

/-- once the namespace is given up (or past bit 28) a word below 2^29 yields no further field -/
theorem next_dead (bs : Bytes) (w : Nat) (hw : w < 2 ^ 29) : ∀ (fuel : Nat) (it : RtIt) (b : Nat),
    it.argIndex = b → b ≤ 31 → it.shifter = w / 2 ^ b → (it.inRadiotapNs = false ∨ 29 ≤ b) → 32 ≤ fuel + b →
    ∃ c, rtNext bs fuel it = .ok (.stop c) := by
  intro fuel
  induction fuel with
  | zero => intro it b _ h1 _ _ h2; omega
  | succ fuel ih =>
    intro it b hidx hb hsh hdead hfuel
    by_cases hp : it.shifter % 2 = 1
    · have hb29 : b < 29 := by
        by_cases h : b < 29
        · exact h
        · rw [hsh, div_pow_zero hw (by omega)] at hp; omega
      have hns : it.inRadiotapNs = false := by rcases hdead with h | h; exact h; omega
      rw [rtNext_giveup bs fuel it hp (by omega) hns]
      exact ih _ (b + 1) (by show it.argIndex + 1 = b + 1; omega) (by omega)
        (by show it.shifter / 2 = _; rw [hsh, pow_shift]) (Or.inl rfl) (by omega)
    · have hp0 : it.shifter % 2 = 0 := by omega
      by_cases h31 : b = 31
      · exact ⟨_, rtNext_end bs fuel it hp0 (by omega)⟩
      · rw [rtNext_absent bs fuel it hp0 (by omega)]
        exact ih (nextEntry it) (b + 1) (by show it.argIndex + 1 = b + 1; omega) (by omega)
          (by show it.shifter / 2 = _; rw [hsh, pow_shift]) (hdead.elim (fun h => Or.inl h) (fun h => Or.inr (by omega)))
          (by omega)

/-- the iterator stands before bit `b` of the (only) present word `w`, in the radiotap namespace -/
structure Pos (itLen w : Nat) (it : RtIt) (b : Nat) : Prop where
  idx : it.argIndex = b
  sh : it.shifter = w / 2 ^ b
  ns : it.inRadiotapNs = true
  ml : it.maxLength = itLen


theorem next_sim (bs : Bytes) (itLen w : Nat) (hw : w < 2 ^ 29) : ∀ (n b fuel : Nat) (it : RtIt),
    b + n = 29 → Pos itLen w it b → 32 ≤ fuel + b →
    (∃ it' b', rtNext bs fuel it = .ok (.hit it') ∧ b ≤ b' ∧ b' < 29 ∧ Pos itLen w it' (b' + 1) ∧
        it'.thisArgIndex = b' ∧ it'.thisArgSize = rtSize b' ∧ it'.thisArg + it'.thisArgSize ≤ itLen ∧
        ∀ fs, Spec.placeBits itLen w n b ⟨it.arg, .radiotap, 0, fs, false, false⟩ =
          Spec.placeBits itLen w (28 - b') (b' + 1) ⟨it'.arg, .radiotap, 0, fs ++ [⟨b', it'.thisArg⟩], false, false⟩) ∨
    (∃ c, rtNext bs fuel it = .ok (.stop c) ∧
        ∀ fs, (Spec.placeBits itLen w n b ⟨it.arg, .radiotap, 0, fs, false, false⟩).fields = fs) := by
  intro n
  induction n with
  | zero =>
    intro b fuel it hbn hpos hfuel
    obtain ⟨c, hc⟩ := next_dead bs w hw fuel it b hpos.idx (by omega) hpos.sh (Or.inr (by omega)) hfuel
    exact Or.inr ⟨c, hc, fun fs => rfl⟩
  | succ n ih =>
    intro b fuel it hbn hpos hfuel
    obtain ⟨fuel, rfl⟩ : ∃ f, fuel = f + 1 := ⟨fuel - 1, by omega⟩
    have hmod : it.argIndex % 32 = b := by rw [hpos.idx]; omega
    by_cases hp : it.shifter % 2 = 1
    · have htb : w.testBit b = true := by rw [testBit_shifter, ← hpos.sh]; simp [hp]
      by_cases hdef : b < Gen.rtapNBits ∧ rtAlign b ≠ 0
      · have hstep := rtNext_field bs fuel it hp (by omega) hpos.ns (by rw [hpos.idx]; exact hdef.1) (by rw [hpos.idx]; exact hdef.2)
        rw [hpos.idx, hpos.ml] at hstep
        by_cases hfit : Spec.alignUp it.arg (rtAlign b) + rtSize b > itLen
        · rw [if_pos hfit] at hstep
          refine Or.inr ⟨_, hstep, fun fs => ?_⟩
          rw [placeBits_rt _ _ _ _ _ htb rfl rfl rfl]
          simp only [Nat.zero_add]
          rw [if_pos hdef, if_pos hfit]
        · rw [if_neg hfit] at hstep
          refine Or.inl ⟨_, b, hstep, Nat.le_refl _, by omega, ⟨rfl, ?_, hpos.ns, rfl⟩, rfl, rfl,
            by show Spec.alignUp it.arg (rtAlign b) + rtSize b ≤ itLen; omega, fun fs => ?_⟩
          · show it.shifter / 2 = _; rw [hpos.sh, pow_shift]
          · rw [placeBits_rt _ _ _ _ _ htb rfl rfl rfl]
            simp only [Nat.zero_add]
            rw [if_pos hdef, if_neg hfit]
            have : n = 28 - b := by omega
            rw [this]; rfl
      · have hspec : ∀ fs, (Spec.placeBits itLen w (n + 1) b ⟨it.arg, .radiotap, 0, fs, false, false⟩).fields = fs := by
          intro fs
          rw [placeBits_rt _ _ _ _ _ htb rfl rfl rfl]
          simp only [Nat.zero_add]
          rw [if_neg hdef]
        have hund : Gen.rtapNBits ≤ it.argIndex ∨ rtAlign it.argIndex = 0 := by
          rw [hpos.idx]
          by_cases hN : Gen.rtapNBits ≤ b
          · exact Or.inl hN
          · by_cases h : rtAlign b = 0
            · exact Or.inr h
            · exact absurd ⟨by omega, h⟩ hdef
        exact Or.inr ⟨_, rtNext_beyond bs fuel it hp (by omega) hpos.ns hund, hspec⟩
    · have hp0 : it.shifter % 2 = 0 := by omega
      have htb : w.testBit b = false := by rw [testBit_shifter, ← hpos.sh]; simp [hp]
      rw [rtNext_absent bs fuel it hp0 (by omega)]
      have hpos' : Pos itLen w (nextEntry it) (b + 1) :=
        ⟨by show it.argIndex + 1 = _; rw [hpos.idx], by show it.shifter / 2 = _; rw [hpos.sh, pow_shift], hpos.ns, hpos.ml⟩
      rcases ih (b + 1) fuel (nextEntry it) (by omega) hpos' (by omega) with ⟨it', b', h1, h2, h3, h4, h5, h6, h7, h8⟩ | ⟨c, h1, h2⟩
      · refine Or.inl ⟨it', b', h1, by omega, h3, h4, h5, h6, h7, fun fs => ?_⟩
        rw [placeBits_absent _ _ _ _ _ htb rfl rfl]
        exact h8 fs
      · refine Or.inr ⟨c, h1, fun fs => ?_⟩
        rw [placeBits_absent _ _ _ _ _ htb rfl rfl]
        exact h2 fs


theorem placeBits_prefix (itLen w : Nat) : ∀ (n b : Nat) (st : Spec.Walk) (pre : List Spec.RtField),
    Spec.placeBits itLen w n b { st with fields := pre ++ st.fields } =
      { Spec.placeBits itLen w n b st with fields := pre ++ (Spec.placeBits itLen w n b st).fields } := by
  intro n
  induction n with
  | zero => intro b st pre; rfl
  | succ n ih =>
    intro b st pre
    simp only [Spec.placeBits]
    split
    · rfl
    · split
      · split
        · exact ih _ _ _
        · split
          · rfl
          · split
            · rfl
            · rw [← ih]; simp only [List.append_assoc]
      · exact ih _ _ _


theorem rtLoop_sim (bs : Bytes) (itLen w : Nat) (hw : w < 2 ^ 29) (hlen : itLen ≤ bs.length) :
    ∀ (fuel : Nat) (it : RtIt) (b : Nat) (acc : RtInfo × Bool),
      Pos itLen w it b → b ≤ 29 → 29 - b < fuel → RtArgOk bs it → acc.1.antennas.length = acc.1.antennaCount →
      ∃ info, rtLoop bs fuel it acc = .ok info ∧
        valuesOf info = ((Spec.placeBits itLen w (29 - b) b ⟨it.arg, .radiotap, 0, [], false, false⟩).fields.foldl
          (Spec.valueStep bs 16) (Spec.valueStep bs 16 (valuesOf acc.1, acc.2) ⟨it.thisArgIndex, it.thisArg⟩)).1 := by
  intro fuel
  induction fuel with
  | zero => intro it b acc _ _ h; omega
  | succ fuel ih =>
    intro it b acc hpos hb hfuel hok hant
    obtain ⟨acc', hf, hant', hval⟩ := rtField_sim acc hant hok
    rw [rtLoop]
    simp only [hf, Outcome.bind_ok]
    rcases next_sim bs itLen w hw (29 - b) b (40 * (bs.length + 2)) it (by omega) hpos (by omega) with
      ⟨it', b', h1, h2, h3, h4, h5, h6, h7, h8⟩ | ⟨c, h1, h2⟩
    · simp only [h1, Outcome.bind_ok]
      obtain ⟨info, hi1, hi2⟩ := ih it' (b' + 1) acc' h4 (by omega) (by omega)
        (Or.inr (Or.inr ⟨by rw [h6, h5], by omega⟩)) hant'
      refine ⟨info, hi1, ?_⟩
      have hpre := placeBits_prefix itLen w (28 - b') (b' + 1) ⟨it'.arg, .radiotap, 0, [], false, false⟩ [⟨b', it'.thisArg⟩]
      simp only [List.append_nil] at hpre
      rw [hi2, h8 [], List.nil_append, hpre, ← hval, h5, show 29 - (b' + 1) = 28 - b' by omega]
      simp only [List.cons_append, List.nil_append, List.foldl_cons]
    · simp only [h1, Outcome.bind_ok]
      refine ⟨acc'.1, rfl, ?_⟩
      rw [h2 [], ← hval]
      rfl


/-! ### the header checks -/

theorem rtFields_some {bs : Bytes} {itLen : Nat} {fields : List Spec.RtField}
    (h : Spec.rtFields bs = some (itLen, fields)) :
    8 ≤ bs.length ∧ Spec.u8 bs 0 = 0 ∧ itLen = Spec.u16 bs 2 ∧ 8 ≤ itLen ∧ itLen ≤ bs.length ∧ itLen ≤ 255 ∧
      ∃ ws, Spec.presentWords bs itLen 64 4 = some ws ∧
        fields = (ws.foldl (fun st w => Spec.walkWord bs itLen w st)
          ⟨4 + 4 * ws.length, .radiotap, 0, [], false, false⟩).fields := by
  unfold Spec.rtFields at h
  split at h
  · cases h
  rename_i h8
  simp only [] at h
  split at h
  · cases h
  rename_i hc
  split at h
  · cases h
  rename_i ws hws
  cases h
  exact ⟨by omega, by omega, rfl, by omega, by omega, by omega, ws, hws, rfl⟩

theorem walkWord_fields (bs : Bytes) (itLen w : Nat) (st : Spec.Walk) :
    (Spec.walkWord bs itLen w st).fields = (Spec.placeBits itLen w 29 0 st).fields := by
  unfold Spec.walkWord
  simp only []
  repeat' split
  all_goals rfl

theorem testBit_of_lt {w b k : Nat} (hw : w < 2 ^ k) (hb : k ≤ b) : w.testBit b = false :=
  Nat.testBit_lt_two_pow (Nat.lt_of_lt_of_le hw (Nat.pow_le_pow_right (by decide) hb))

/-- the freshly initialised iterator: length `itLen`, first present word `w`, data starting at `arg` -/
def it0 (itLen w arg : Nat) : RtIt :=
  { maxLength := itLen, argIndex := 0, shifter := w, arg := arg, nextNsData := wildOffset, nextBitmap := 8,
    resetOnExt := false, inRadiotapNs := true, thisArg := arg, thisArgIndex := 0, thisArgSize := 0 }

theorem rtInit_single {bs : Bytes} (h8 : 8 ≤ bs.length) (hv : Spec.u8 bs 0 = 0) (hl : Spec.u16 bs 2 ≤ bs.length)
    (hw : (Spec.u32 bs 4).testBit 31 = false) :
    rtInit bs bs.length = .ok (it0 (Spec.u16 bs 2) (Spec.u32 bs 4) 8) := by
  unfold rtInit it0
  have hv' : (bs.getD 0 0).toNat = 0 := hv
  rw [if_neg (by omega), rd_eq (by omega)]
  simp only [Outcome.bind_ok, hv', ne_eq, not_true_eq_false, if_false]
  rw [le16At_u16 (by omega)]
  simp only [Outcome.bind_ok]
  rw [if_neg (by omega), le32At_u32 (by omega)]
  simp only [Outcome.bind_ok, hw, Bool.false_eq_true, if_false]

/-- **T1** a header with a single present word (no EXT / namespace bits): the parser reports exactly the
values the Spec assigns to the fields the Spec places -/
theorem C09_decode_single (bs : Bytes) (itLen : Nat) (fields : List Spec.RtField)
    (h : Spec.rtFields bs = some (itLen, fields)) (hw : Spec.u32 bs 4 < 2 ^ 29) :
    ∃ info, parseRadiotapInfo bs = .ok info ∧
      valuesOf info = Spec.rtValues bs itLen fields Gen.m_LIBWIFI_MAX_RADIOTAP_ANTENNAS := by
  obtain ⟨h8, hv, hit, hi8, hile, hi255, ws, hws, hfields⟩ := rtFields_some h
  have h31 : (Spec.u32 bs 4).testBit 31 = false := testBit_of_lt hw (by omega)
  have hws' : ws = [Spec.u32 bs 4] := by
    rw [Spec.presentWords] at hws
    simp only [h31, Bool.false_eq_true, if_false] at hws
    rw [if_neg (by omega)] at hws
    cases hws; rfl
  subst hws'
  simp only [List.foldl_cons, List.foldl_nil, walkWord_fields, List.length_cons, List.length_nil] at hfields
  unfold parseRadiotapInfo
  rw [if_neg (by omega), le16At_u16 (by omega)]
  simp only [Outcome.bind_ok]
  rw [← hit, if_neg (by omega), rtInit_single h8 hv (by omega) h31, le32At_u32 (by omega)]
  simp only [Outcome.bind_ok]
  rw [← hit]
  obtain ⟨info, hi1, hi2⟩ := rtLoop_sim bs itLen (Spec.u32 bs 4) hw hile (32 * (bs.length + 2))
    (it0 itLen (Spec.u32 bs 4) 8) 0 ({ length := itLen, present := 0 }, false)
    ⟨rfl, by simp [it0], rfl, rfl⟩ (by omega) (by omega) (Or.inl rfl) rfl
  refine ⟨info, hi1, ?_⟩
  rw [hi2, maxAnt, hfields]
  rfl


theorem valueStep_length (bs : Bytes) (m : Nat) (s : Spec.RtValues × Bool) (f : Spec.RtField) :
    (Spec.valueStep bs m s f).1.length = s.1.length := by
  unfold Spec.valueStep
  simp only []
  repeat' split
  all_goals rfl

theorem rtValues_length (bs : Bytes) (itLen : Nat) (fields : List Spec.RtField) (m : Nat) :
    (Spec.rtValues bs itLen fields m).length = itLen := by
  unfold Spec.rtValues
  have : ∀ (fs : List Spec.RtField) (s : Spec.RtValues × Bool),
      (fs.foldl (Spec.valueStep bs m) s).1.length = s.1.length := by
    intro fs
    induction fs with
    | nil => intro s; rfl
    | cons f fs ih => intro s; rw [List.foldl_cons, ih, valueStep_length]
  rw [this]

theorem C09_decode_statement_single : ∀ bs itLen fields, Spec.rtFields bs = some (itLen, fields) →
    Spec.u32 bs 4 < 2 ^ 29 → ∃ info, parseRadiotapInfo bs = .ok info ∧ info.length = itLen := by
  intro bs itLen fields h hw
  obtain ⟨info, h1, h2⟩ := C09_decode_single bs itLen fields h hw
  refine ⟨info, h1, ?_⟩
  have : (valuesOf info).length = (Spec.rtValues bs itLen fields Gen.m_LIBWIFI_MAX_RADIOTAP_ANTENNAS).length := by rw [h2]
  rw [rtValues_length] at this
  exact this

/-! non-vacuity: FLAGS | RATE | CHANNEL; an undefined field (18) in the middle; a last field running past `it_len` -/
example : Spec.rtFields [0, 0, 16, 0, 0x0e, 0, 0, 0, 0x12, 0, 0xa8, 0x09, 0x0a, 0, 0xc5, 0] =
    some (16, [⟨1, 8⟩, ⟨2, 9⟩, ⟨3, 10⟩]) ∧
    Spec.u32 [0, 0, 16, 0, 0x0e, 0, 0, 0, 0x12, 0, 0xa8, 0x09, 0x0a, 0, 0xc5, 0] 4 < 2 ^ 29 := by
  decide +kernel

example : Spec.rtFields [0, 0, 14, 0, 0x26, 0, 0x0c, 0, 0x12, 0x0c, 0xd0, 1, 2, 3] =
    some (14, [⟨1, 8⟩, ⟨2, 9⟩, ⟨5, 10⟩]) ∧
    Spec.u32 [0, 0, 14, 0, 0x26, 0, 0x0c, 0, 0x12, 0x0c, 0xd0, 1, 2, 3] 4 < 2 ^ 29 := by
  decide +kernel

example : Spec.rtFields [0, 0, 12, 0, 0x0a, 0, 0, 0, 0x12, 0, 0xa8, 0x09] = some (12, [⟨1, 8⟩]) ∧
    Spec.u32 [0, 0, 12, 0, 0x0a, 0, 0, 0, 0x12, 0, 0xa8, 0x09] 4 < 2 ^ 29 := by
  decide +kernel

/-! ### every header: the parser returns 0 with the header's length (`C09_decode_statement`) -/

theorem rd_no_err (what : String) (bs : Bytes) (i : Nat) (c : Int) : rd what bs i ≠ .err c := by
  unfold rd; split <;> exact fun h => nomatch h

theorem bind_no_err {α β} (x : Outcome α) (f : α → Outcome β) (hx : ∀ c, x ≠ .err c) (hf : ∀ a c, f a ≠ .err c) :
    ∀ c, (x >>= f) ≠ .err c := by
  intro c
  cases x with
  | ok a => exact hf a c
  | err c' => exact absurd rfl (hx c')
  | fault g => exact fun h => nomatch h

theorem le16At_no_err (what : String) (bs : Bytes) (i : Nat) (c : Int) : le16At what bs i ≠ .err c := by
  unfold le16At
  exact bind_no_err _ _ (rd_no_err _ _ _) (fun a => bind_no_err _ _ (rd_no_err _ _ _) (fun b c h => by cases h)) c

theorem le32At_no_err (what : String) (bs : Bytes) (i : Nat) (c : Int) : le32At what bs i ≠ .err c := by
  unfold le32At rdSlice
  split <;> exact fun h => nomatch h

theorem rtNext_no_err (bs : Bytes) : ∀ (fuel : Nat) (it : RtIt) (c : Int), rtNext bs fuel it ≠ .err c := by
  intro fuel
  induction fuel with
  | zero => intro it c h; rw [rtNext] at h; cases h
  | succ fuel ih =>
    intro it c
    rw [rtNext]
    simp only []
    repeat' split
    all_goals first
      | (intro h; cases h; done)
      | exact ih _ _
      | exact bind_no_err _ _ (le32At_no_err _ _ _) (fun a c => ih _ c) c
      | exact bind_no_err _ _ (le16At_no_err _ _ _) (fun a c => by split <;> (intro h; cases h)) c


/-- the loop ends with `ok` (the C returns 0) and leaves `length` alone, for any well-formed iterator -/
theorem rtLoop_length (bs : Bytes) : ∀ (fuel : Nat) (it : RtIt) (acc : RtInfo × Bool),
    RtInv bs it → RtArgOk bs it → rtMu bs it ≤ fuel → acc.1.antennas.length = acc.1.antennaCount →
    ∃ info, rtLoop bs fuel it acc = .ok info ∧ info.length = acc.1.length := by
  intro fuel
  induction fuel with
  | zero => intro it _ _ _ h; have := rtMu_pos bs it; omega
  | succ fuel ih =>
    intro it acc hinv harg hfuel hant
    obtain ⟨acc', hf, hant', hval⟩ := rtField_sim acc hant harg
    have hlen' : acc'.1.length = acc.1.length := by
      have := congrArg (fun p => p.1.length) hval
      simp only [valueStep_length] at this
      exact this
    rw [rtLoop]
    simp only [hf, Outcome.bind_ok]
    have hn := rtNext_inv (fuel := 40 * (bs.length + 2)) hinv (by have := rtMu_le hinv; omega)
    cases hnx : rtNext bs (40 * (bs.length + 2)) it with
    | fault g => exact absurd hnx (hn.1 g)
    | err c => exact absurd hnx (rtNext_no_err bs _ _ c)
    | ok r =>
      simp only [Outcome.bind_ok]
      cases r with
      | stop c => exact ⟨_, rfl, hlen'⟩
      | hit it' =>
        obtain ⟨hinv', hmu, hle, hidx⟩ := hn.2 it' hnx
        obtain ⟨info, h1, h2⟩ := ih it' acc' hinv' (by
          rcases hidx with h30 | ⟨_, hsz⟩
          · exact Or.inr (Or.inl h30)
          · exact Or.inr (Or.inr ⟨hsz, by have := hinv'.1; omega⟩)) (by omega) hant'
        exact ⟨info, h1, by rw [h2, hlen']⟩

/-! ### the chain of present words: `rtInit` against `Spec.presentWords` -/

theorem presentWords_skip (bs : Bytes) (itLen : Nat) (hlen : itLen ≤ bs.length) :
    ∀ (f off : Nat) (ws : List Nat), Spec.presentWords bs itLen f off = some ws →
      ∀ fm, bs.length < fm + off → rtInit.skip bs itLen fm off = .ok (off + 4 * ws.length) := by
  intro f
  induction f with
  | zero => intro off ws h; rw [Spec.presentWords] at h; cases h
  | succ f ih =>
    intro off ws h fm hfm
    rw [Spec.presentWords] at h
    split at h
    · cases h
    rename_i hoff
    obtain ⟨fm, rfl⟩ : ∃ k, fm = k + 1 := ⟨fm - 1, by omega⟩
    rw [rtInit.skip, le32At_u32 (by omega)]
    simp only [Outcome.bind_ok]
    simp only [] at h
    by_cases hb : (Spec.u32 bs off).testBit 31 = true
    · simp only [hb, if_true] at h ⊢
      cases hr : Spec.presentWords bs itLen f (off + 4) with
      | none => rw [hr] at h; cases h
      | some ws' =>
        rw [hr] at h
        cases h
        have hfit : ¬ (off + 4 + 4 > itLen) := by
          cases f with
          | zero => rw [Spec.presentWords] at hr; cases hr
          | succ f =>
            rw [Spec.presentWords] at hr
            split at hr
            · cases hr
            · assumption
        rw [if_neg hfit, ih (off + 4) ws' hr fm (by omega)]
        simp only [List.length_cons]
        congr 1; omega
    · simp only [hb, Bool.false_eq_true, if_false] at h ⊢
      cases h; rfl


theorem presentWords_fit {bs : Bytes} {itLen f off : Nat} {ws : List Nat}
    (h : Spec.presentWords bs itLen f off = some ws) : off + 4 ≤ itLen := by
  cases f with
  | zero => rw [Spec.presentWords] at h; cases h
  | succ f =>
    rw [Spec.presentWords] at h
    split at h
    · cases h
    · omega

theorem presentWords_cons {bs : Bytes} {itLen f off : Nat} {ws : List Nat}
    (h : Spec.presentWords bs itLen (f + 1) off = some ws) :
    ∃ rest, ws = Spec.u32 bs off :: rest ∧
      if (Spec.u32 bs off).testBit 31 then Spec.presentWords bs itLen f (off + 4) = some rest else rest = [] := by
  rw [Spec.presentWords] at h
  split at h
  · cases h
  simp only [] at h
  by_cases hb : (Spec.u32 bs off).testBit 31 = true
  · simp only [hb, if_true] at h ⊢
    cases hr : Spec.presentWords bs itLen f (off + 4) with
    | none => rw [hr] at h; cases h
    | some ws' => rw [hr] at h; cases h; exact ⟨ws', rfl, rfl⟩
  · simp only [hb, Bool.false_eq_true, if_false] at h ⊢
    cases h; exact ⟨[], rfl, rfl⟩

/-- `rtInit` on a header the Spec accepts: the iterator starts at the first present word with the
argument pointer just after the chain of present words -/
theorem rtInit_general {bs : Bytes} {ws : List Nat} (h8 : 8 ≤ bs.length) (hv : Spec.u8 bs 0 = 0)
    (hl : Spec.u16 bs 2 ≤ bs.length) (hws : Spec.presentWords bs (Spec.u16 bs 2) 64 4 = some ws) :
    rtInit bs bs.length = .ok (it0 (Spec.u16 bs 2) (Spec.u32 bs 4) (4 + 4 * ws.length)) := by
  obtain ⟨rest, hcons, hrest⟩ := presentWords_cons hws
  have hfit := presentWords_fit hws
  unfold rtInit it0
  have hv' : (bs.getD 0 0).toNat = 0 := hv
  rw [if_neg (by omega), rd_eq (by omega)]
  simp only [Outcome.bind_ok, hv', ne_eq, not_true_eq_false, if_false]
  rw [le16At_u16 (by omega)]
  simp only [Outcome.bind_ok]
  rw [if_neg (by omega), le32At_u32 (by omega)]
  simp only [Outcome.bind_ok]
  by_cases hb : (Spec.u32 bs 4).testBit 31 = true
  · simp only [hb, if_true] at hrest ⊢
    have hfit2 := presentWords_fit hrest
    rw [if_neg (by omega), presentWords_skip bs _ hl _ _ _ hrest (bs.length + 1) (by omega)]
    simp only [Outcome.bind_ok, hcons, List.length_cons]
    have : 8 + 4 * rest.length = 4 + 4 * (rest.length + 1) := by omega
    rw [this]
  · simp only [hb, Bool.false_eq_true, if_false] at hrest ⊢
    rw [hcons, hrest]
    rfl

/-- **C09 (decode, every header)**: the statement left open in `Props/C09.lean` — whenever the Spec
accepts a header, the parser returns 0 and reports the header's own length -/
theorem C09_decode : C09.C09_decode_statement := by
  intro bs itLen fields h
  obtain ⟨h8, hv, hit, hi8, hile, hi255, ws, hws, -⟩ := rtFields_some h
  unfold parseRadiotapInfo
  rw [if_neg (by omega), le16At_u16 (by omega)]
  simp only [Outcome.bind_ok]
  rw [← hit, if_neg (by omega)]
  have hinit := rtInit_general h8 hv (by omega) (by rw [← hit]; exact hws)
  rw [hinit, le32At_u32 (by omega)]
  simp only [Outcome.bind_ok]
  have hinv := rtInit_inv hinit (Nat.le_refl _)
  obtain ⟨info, h1, h2⟩ := rtLoop_length bs (32 * (bs.length + 2)) _ ({ length := itLen, present := 0 }, false) hinv
    (Or.inl rfl) (by have := rtMu_le hinv; omega) rfl
  exact ⟨info, h1, h2⟩

end LWV.Props.C09Full
