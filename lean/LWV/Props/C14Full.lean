import LWV.Lemmas.Heap
import LWV.Props.C14
import LWV.Props.C03
/-
C14 / C15 for whole objects — the lifecycle and allocation-failure theorems of `LWV.Lemmas.Heap`
(tag lists) extended to the generator objects, to frame classification and to the
classify / parse / release pipeline.

Everything is stated for an ARBITRARY fault schedule `σ : Nat → Bool` and an arbitrary starting
ledger `h` with `Clean h own`, so the statements compose.

One restriction is needed and is made explicit (`applies`): `freeH` releases the detail block for
the action kinds and the tag block for the other kinds, so an edit must be one the API offers for
the kind (tag edits on objects with tagged parameters, detail edits on action objects); this is what
the driver's `editApplies` enforces.

History: an earlier version of this file needed a second hypothesis `noWrap`, because
`libwifi_add_action_detail` let its one-octet total length wrap to 0 with the block still allocated
and the next call then overwrote the pointer (a leak, confirmed on the C).  The C and the models now
refuse, before allocating, details that do not fit (`-EINVAL`); the hypothesis is gone and the old
counter-example is kept below as `wrapHistory`, now ending with an empty ledger.
-/
namespace LWV.Props.C14Full
open LWV LWV.Model LWV.Heap

/-! ## G1 generator objects -/

def isAct : GKind → Bool
  | .action | .actionNoAck => true
  | _ => false

def tagged : GKind → Bool
  | .action | .actionNoAck | .atim | .rts | .cts => false
  | _ => true

theorem hasTags_eq (o : GObj) : o.hasTags = tagged o.kind := by
  unfold GObj.hasTags
  generalize o.kind = k
  cases k <;> rfl

theorem mem_blocks (p : Ptr) (x : Nat) : x ∈ blocks p ↔ p = some x := by
  cases p <;> simp [blocks, eq_comm]

theorem perm3 (a b c : List Nat) : ∀ x, x ∈ a ++ (b ++ c) ↔ x ∈ b ++ (a ++ c) := by
  intro x
  simp only [List.mem_append]
  constructor <;> (rintro (h | h | h) <;> simp [h])

/-- ownership: the ledger holds exactly the object's tag block, its detail block and `own` -/
structure Own (g : GObjH) (h : H) (own : List Nat) : Prop where
  clean : Clean h (blocks g.tags.ptr ++ (blocks g.detailPtr ++ own))
  tfresh : ∀ id, g.tags.ptr = some id → id ∉ own
  dfresh : ∀ id, g.detailPtr = some id → id ∉ own
  distinct : ∀ i j, g.tags.ptr = some i → g.detailPtr = some j → i ≠ j
  owns : Owns g.tags
  downs : (g.o.detailLen = 0 → g.detailPtr = none) ∧ (g.o.detailLen ≠ 0 → g.detailPtr.isSome)
  sync : g.o.tags = g.tags.t

/-- the part of the invariant that depends on the kind: `free_<kind>` releases the detail block for
the action kinds, the tag block for the kinds with tagged parameters and nothing for ATIM / RTS /
CTS, so an object holds no block its own release would not free -/
structure KindOk (g : GObjH) : Prop where
  noTags : tagged g.o.kind = false → g.tags.ptr = none
  noDetail : isAct g.o.kind = false → g.detailPtr = none

/-- **the generator-object invariant**: the object owns at most its tag block and its detail block
(fresh, distinct, exactly recorded in the ledger next to `own`), each present exactly when the
stored length is non-zero, and only blocks that `free_<kind>` releases -/
structure GInv (g : GObjH) (h : H) (own : List Nat) : Prop where
  own : Own g h own
  kind : KindOk g

theorem Own.ledger {g : GObjH} {h : H} {own : List Nat} (w : Own g h own) :
    Ledger g.tags h (blocks g.detailPtr ++ own) :=
  ⟨w.clean, fun id hid hm => by
      rcases List.mem_append.mp hm with hm | hm
      · exact w.distinct id id hid ((mem_blocks _ _).mp hm) rfl
      · exact w.tfresh id hid hm, w.owns⟩

theorem own_of_ledger {g : GObjH} {th' : TagsH} {h' : H} {own : List Nat}
    (hd : ∀ id, g.detailPtr = some id → id ∉ own)
    (hdo : (g.o.detailLen = 0 → g.detailPtr = none) ∧ (g.o.detailLen ≠ 0 → g.detailPtr.isSome))
    (l : Ledger th' h' (blocks g.detailPtr ++ own)) :
    Own { g with tags := th', o := { g.o with tags := th'.t } } h' own :=
  ⟨l.clean, fun id hid hm => l.fresh id hid (List.mem_append_right _ hm), hd,
    fun i _ hi hj he => l.fresh i hi (List.mem_append_left _ ((mem_blocks _ _).mpr (he ▸ hj))),
    l.owns, hdo, rfl⟩

theorem editH_tag_run (σ : Nat → Bool) (g : GObjH) (op : TagOp) (h : H) : (editH σ g (.tag op)).run h =
  ((((stepTagH σ g.tags op).run h).1.1, { g with tags := ((stepTagH σ g.tags op).run h).1.2, o := { g.o with tags := ((stepTagH σ g.tags op).run h).1.2.t } }), ((stepTagH σ g.tags op).run h).2) := rfl

theorem own_detail_ok {g : GObjH} {h h' : H} {own : List Nat} (w : Own g h own) (q : Nat)
    (hq : q ∉ blocks g.tags.ptr ++ own) (c : Clean h' (q :: (blocks g.tags.ptr ++ own)))
    (det : Bytes) (nl : Nat) (hnl : nl ≠ 0) :
    Own { g with detailPtr := some q, o := { g.o with detail := det, detailLen := nl } } h' own := by
  refine ⟨c.congr ?_, w.tfresh, ?_, ?_, w.owns, ⟨fun h0 => absurd h0 hnl, fun _ => rfl⟩, w.sync⟩
  · intro x
    simp only [blocks, Option.toList, List.mem_cons, List.mem_append, List.not_mem_nil, or_false]
    constructor
    · rintro (h | h | h) <;> simp [h]
    · rintro (h | h | h) <;> simp [h]
  · intro id hid hm
    cases hid
    exact hq (List.mem_append_right _ hm)
  · intro i j hi hj he
    cases hj
    exact hq (List.mem_append_left _ ((mem_blocks _ _).mpr (he ▸ hi)))

/-- **G1(b), ownership part** EVERY edit on EVERY kind (applicable or not, including `.freeDetail`),
under every schedule, keeps the ledger exact: no leak, no double free, whatever the return code
(`libwifi_add_action_detail` refuses, before allocating, what would not fit the one-octet length, so
the stored length is 0 only when nothing is stored) -/
theorem editH_own (σ : Nat → Bool) (g : GObjH) (e : GEdit) (h : H) (own : List Nat) (w : Own g h own) :
    Own ((editH σ g e).run h).1.2 ((editH σ g e).run h).2 own := by
  cases e with
  | tag op =>
    rw [editH_tag_run]
    exact own_of_ledger w.dfresh w.downs (stepTagH_ledger σ g.tags op h _ w.ledger)
  | detail d =>
    have c' : Clean h (blocks g.detailPtr ++ (blocks g.tags.ptr ++ own)) := w.clean.congr (perm3 _ _ _)
    have hp : ∀ id, g.detailPtr = some id → id ∉ blocks g.tags.ptr ++ own := by
      intro id hid hm
      rcases List.mem_append.mp hm with hm | hm
      · exact w.distinct id id ((mem_blocks _ _).mp hm) hid rfl
      · exact w.dfresh id hid hm
    unfold editH
    simp only []
    by_cases hd : d.length = 0
    · simp only [hd, if_true, run_pure]
      exact w
    · simp only [hd, if_false]
      by_cases hbig : d.length > 255 - g.o.detailLen
      · simp only [hbig, if_true, run_pure]
        exact w
      simp only [hbig, if_false]
      have hnl : g.o.detailLen + d.length ≠ 0 := by omega
      by_cases hl : g.o.detailLen = 0
      · have hnone := w.downs.1 hl
        have c0 : Clean h (blocks g.tags.ptr ++ own) := by simpa [hnone, blocks] using c'
        simp only [hl, ne_eq, not_true_eq_false, if_false]
        rw [run_bind]
        rcases malloc_spec σ d.length h _ c0 with ⟨hn, cn⟩ | ⟨id, hs, hid, cs⟩
        · simp only [hn, run_pure]
          exact { w with clean := by simpa [hnone, blocks] using cn }
        · simp only [hs, run_pure]
          rw [hl] at hnl
          exact own_detail_ok w id hid cs _ _ hnl
      · simp only [hl, ne_eq, not_false_eq_true, if_true]
        rw [run_bind]
        rcases realloc_spec σ g.detailPtr (d.length + g.o.detailLen) h _ c' hp with ⟨hn, cn⟩ | ⟨id, hs, hid, cs⟩
        · simp only [hn, run_pure]
          exact { w with clean := cn.congr (perm3 _ _ _) }
        · simp only [hs, run_pure]
          exact own_detail_ok w id hid cs _ _ hnl
  | freeDetail =>
    have c' : Clean h (blocks g.detailPtr ++ (blocks g.tags.ptr ++ own)) := w.clean.congr (perm3 _ _ _)
    have hp : ∀ id, g.detailPtr = some id → id ∉ blocks g.tags.ptr ++ own := by
      intro id hid hm
      rcases List.mem_append.mp hm with hm | hm
      · exact w.distinct id id ((mem_blocks _ _).mp hm) hid rfl
      · exact w.dfresh id hid hm
    unfold editH
    simp only []
    by_cases hl : g.o.detailLen = 0
    · simp only [hl, ne_eq, not_true_eq_false, if_false, run_pure]
      exact w
    · simp only [hl, ne_eq, not_false_eq_true, if_true]
      rw [run_bind]
      have c1 := free_spec g.detailPtr h _ c' hp
      simp only [run_pure]
      exact ⟨by simpa [blocks] using c1, w.tfresh, by simp, by simp, w.owns, ⟨fun _ => rfl, fun h0 => absurd rfl h0⟩, w.sync⟩


/-- no edit changes the kind -/
theorem editH_kind (σ : Nat → Bool) (g : GObjH) (e : GEdit) (h : H) :
    ((editH σ g e).run h).1.2.o.kind = g.o.kind := by
  cases e with
  | tag op => rfl
  | detail d =>
    unfold editH
    simp only []
    split
    · rfl
    · split
      · rfl
      · split
        · rw [run_bind]; split <;> rfl
        · rw [run_bind]; split <;> rfl
  | freeDetail =>
    unfold editH
    simp only []
    split <;> rfl

/-- tag edits do not touch the detail pointer; detail edits do not touch the tag list -/
theorem editH_tag_detailPtr (σ : Nat → Bool) (g : GObjH) (op : TagOp) (h : H) :
    ((editH σ g (.tag op)).run h).1.2.detailPtr = g.detailPtr := rfl

theorem editH_detail_tags (σ : Nat → Bool) (g : GObjH) (d : Bytes) (h : H) :
    ((editH σ g (.detail d)).run h).1.2.tags = g.tags := by
  unfold editH
  simp only []
  split
  · rfl
  · split
    · rfl
    · split
      · rw [run_bind]; split <;> rfl
      · rw [run_bind]; split <;> rfl

theorem editH_freeDetail_tags (σ : Nat → Bool) (g : GObjH) (h : H) :
    ((editH σ g .freeDetail).run h).1.2.tags = g.tags := by
  unfold editH
  simp only []
  split <;> rfl

/-- the edits the API offers for a kind (the driver's `editApplies`, coarsened): tag edits for
objects with tagged parameters, detail edits for action objects -/
def applies (k : GKind) : GEdit → Bool
  | .tag _ => tagged k
  | .detail _ => isAct k
  | .freeDetail => isAct k

theorem editH_kindOk (σ : Nat → Bool) (g : GObjH) (e : GEdit) (h : H) (ko : KindOk g) (ha : applies g.o.kind e = true) :
    KindOk ((editH σ g e).run h).1.2 := by
  constructor
  · rw [editH_kind]
    intro ht
    cases e with
    | tag op => simp [applies, ht] at ha
    | detail d => rw [editH_detail_tags]; exact ko.noTags ht
    | freeDetail => rw [editH_freeDetail_tags]; exact ko.noTags ht
  · rw [editH_kind]
    intro hk
    cases e with
    | tag op => rw [editH_tag_detailPtr]; exact ko.noDetail hk
    | detail d => simp [applies, hk] at ha
    | freeDetail => simp [applies, hk] at ha

/-- **G1(b)** every applicable edit preserves the object invariant, whatever allocations fail -/
theorem editH_inv (σ : Nat → Bool) (g : GObjH) (e : GEdit) (h : H) (own : List Nat) (i : GInv g h own)
    (ha : applies g.o.kind e = true) :
    GInv ((editH σ g e).run h).1.2 ((editH σ g e).run h).2 own :=
  ⟨editH_own σ g e h own i.own, editH_kindOk σ g e h i.kind ha⟩

/-! ### create -/

theorem ledger_empty (h : H) (own : List Nat) (c : Clean h own) : Ledger ({} : TagsH) h own :=
  ⟨by simpa [blocks] using c, by simp, ⟨fun _ => rfl, fun h0 => absurd rfl h0⟩⟩

/-- `let (r, t) ← m1; if r ≠ 0 then pure (r, t) else f t` -/
def andThen (m1 : M (Int × TagsH)) (f : TagsH → M (Int × TagsH)) : M (Int × TagsH) := do
  let (r, t) ← m1
  if r ≠ 0 then pure (r, t) else f t

theorem andThen_ledger (m1 : M (Int × TagsH)) (f : TagsH → M (Int × TagsH)) (h : H) (own : List Nat)
    (l1 : Ledger (m1.run h).1.2 (m1.run h).2 own)
    (l2 : ∀ th h', Ledger th h' own → Ledger ((f th).run h').1.2 ((f th).run h').2 own) :
    Ledger ((andThen m1 f).run h).1.2 ((andThen m1 f).run h).2 own := by
  unfold andThen
  rw [run_bind]
  generalize m1.run h = res at l1
  obtain ⟨⟨r, th1⟩, h1⟩ := res
  simp only at l1 ⊢
  by_cases hr : r = 0
  · simp only [hr, ne_eq, not_true_eq_false, if_false]; exact l2 _ _ l1
  · simp only [hr, ne_eq, not_false_eq_true, if_true, run_pure]; exact l1

theorem initialTagsH_eq (σ : Nat → Bool) (k : GKind) (a : GArgs) :
    initialTagsH σ k a =
      match k with
      | .beacon | .probeResp => andThen (setTagH σ {} tagSsid (cstr a.ssid)) (fun t => setTagH σ t tagDs [UInt8.ofNat a.ch])
      | .probeReq | .assocReq | .reassocReq => andThen (quickAddTagH σ {} tagSsid (cstr a.ssid)) (fun t => quickAddTagH σ t tagDs [UInt8.ofNat a.ch])
      | .assocResp => andThen (setTagH σ {} tagDs [UInt8.ofNat a.ch]) (fun t => quickAddTagH σ t tagSuppRates Gen.s_LIBWIFI_DEFAULT_SUPP_RATES)
      | .reassocResp => setTagH σ {} tagDs [UInt8.ofNat a.ch]
      | .timingAd => quickAddTagH σ {} tagTimeAdv (timingElement a)
      | _ => pure (0, {}) := by
  cases k <;> rfl

theorem initialTagsH_ledger (σ : Nat → Bool) (k : GKind) (a : GArgs) (h : H) (own : List Nat) (c : Clean h own) :
    Ledger ((initialTagsH σ k a).run h).1.2 ((initialTagsH σ k a).run h).2 own := by
  have l0 := ledger_empty h own c
  rw [initialTagsH_eq]
  cases k <;> simp only []
  case beacon => exact andThen_ledger _ _ h own (setTagH_ok σ _ _ _ h own l0).2 (fun th h' l => (setTagH_ok σ th _ _ h' own l).2)
  case probeResp => exact andThen_ledger _ _ h own (setTagH_ok σ _ _ _ h own l0).2 (fun th h' l => (setTagH_ok σ th _ _ h' own l).2)
  case probeReq => exact andThen_ledger _ _ h own (quickAddTagH_ok σ _ _ _ h own l0).2 (fun th h' l => (quickAddTagH_ok σ th _ _ h' own l).2)
  case assocReq => exact andThen_ledger _ _ h own (quickAddTagH_ok σ _ _ _ h own l0).2 (fun th h' l => (quickAddTagH_ok σ th _ _ h' own l).2)
  case reassocReq => exact andThen_ledger _ _ h own (quickAddTagH_ok σ _ _ _ h own l0).2 (fun th h' l => (quickAddTagH_ok σ th _ _ h' own l).2)
  case assocResp => exact andThen_ledger _ _ h own (setTagH_ok σ _ _ _ h own l0).2 (fun th h' l => (quickAddTagH_ok σ th _ _ h' own l).2)
  case reassocResp => exact (setTagH_ok σ _ _ _ h own l0).2
  case timingAd => exact (quickAddTagH_ok σ _ _ _ h own l0).2
  all_goals exact l0


/-- the pure part of a created object -/
def baseObj (k : GKind) (a : GArgs) : GObj :=
  match create k a with
  | .ok (_, o) => o
  | _ => { kind := k, fc := [], a1 := [], a2 := [], a3 := [] }

theorem baseObj_kind (k : GKind) (a : GArgs) : (baseObj k a).kind = k ∧ (baseObj k a).detailLen = 0 := by
  unfold baseObj create
  cases initialTags k a with
  | ok p =>
    obtain ⟨r, t⟩ := p
    simp only [Outcome.bind_ok]
    cases k <;> exact ⟨rfl, rfl⟩
  | err c => exact ⟨rfl, rfl⟩
  | fault f => exact ⟨rfl, rfl⟩

theorem createH_run (σ : Nat → Bool) (k : GKind) (a : GArgs) (h : H) : (createH σ k a).run h =
    ((((initialTagsH σ k a).run h).1.1,
      { o := { baseObj k a with tags := ((initialTagsH σ k a).run h).1.2.t }, tags := ((initialTagsH σ k a).run h).1.2 }),
     ((initialTagsH σ k a).run h).2) := rfl

theorem createH_kind (σ : Nat → Bool) (k : GKind) (a : GArgs) (h : H) : ((createH σ k a).run h).1.2.o.kind = k := by
  rw [createH_run]
  exact (baseObj_kind k a).1

theorem initialTagsH_untagged (σ : Nat → Bool) (k : GKind) (a : GArgs) (h : H) (ht : tagged k = false) :
    (initialTagsH σ k a).run h = ((0, {}), h) := by
  cases k <;> first | rfl | (simp [tagged] at ht)

/-- **G1(a)** whatever allocations fail, and whatever `create_<kind>` returns, the object it leaves
behind satisfies the ownership invariant -/
theorem createH_inv (σ : Nat → Bool) (k : GKind) (a : GArgs) (h : H) (own : List Nat) (c : Clean h own) :
    GInv ((createH σ k a).run h).1.2 ((createH σ k a).run h).2 own := by
  have l := initialTagsH_ledger σ k a h own c
  have hk := createH_kind σ k a h
  rw [createH_run] at hk ⊢
  refine ⟨⟨by simpa [blocks] using l.clean, l.fresh, by simp, by simp, l.owns, ⟨fun _ => rfl, fun h0 => absurd (baseObj_kind k a).2 h0⟩, rfl⟩, ⟨?_, fun _ => rfl⟩⟩
  intro ht
  rw [hk] at ht
  show ((initialTagsH σ k a).run h).1.2.ptr = none
  rw [initialTagsH_untagged σ k a h ht]

/-! ### free -/

theorem freeH_eq (g : GObjH) :
    freeH g = if isAct g.o.kind then free g.detailPtr else if tagged g.o.kind then free g.tags.ptr else pure () := by
  unfold freeH
  generalize g.o.kind = k
  cases k <;> rfl

theorem isAct_not_tagged (k : GKind) (h : isAct k = true) : tagged k = false := by
  cases k <;> first | rfl | (simp [isAct] at h)

/-- **G1(c)** `libwifi_free_<kind>` from an invariant state: nothing of the object remains and no
invalid or double free happened -/
theorem freeH_clean (g : GObjH) (h : H) (own : List Nat) (i : GInv g h own) :
    Clean ((freeH g).run h).2 own := by
  rw [freeH_eq]
  by_cases ha : isAct g.o.kind = true
  · simp only [ha, if_true]
    have hn := i.kind.noTags (isAct_not_tagged _ ha)
    exact free_spec g.detailPtr h own (by simpa [hn, blocks] using i.own.clean) i.own.dfresh
  · have ha' : isAct g.o.kind = false := by simpa using ha
    have hn := i.kind.noDetail ha'
    simp only [ha', Bool.false_eq_true, if_false]
    by_cases ht : tagged g.o.kind = true
    · simp only [ht, if_true]
      exact free_spec g.tags.ptr h own (by simpa [hn, blocks] using i.own.clean) i.own.tfresh
    · have ht' : tagged g.o.kind = false := by simpa using ht
      have hn2 := i.kind.noTags ht'
      simp only [ht', Bool.false_eq_true, if_false, run_pure]
      simpa [hn, hn2, blocks] using i.own.clean

/-- **G1(a), second half** also after a failed `create_<kind>` (non-zero return, any schedule) the
documented `free_<kind>` releases everything -/
theorem createH_releasable (σ : Nat → Bool) (k : GKind) (a : GArgs) (h : H) (own : List Nat) (c : Clean h own) :
    Clean ((freeH ((createH σ k a).run h).1.2).run ((createH σ k a).run h).2).2 own :=
  freeH_clean _ _ own (createH_inv σ k a h own c)

/-! ### whole lifecycles -/

/-- apply the edits in order, ignoring return codes; edits the API does not offer for the object's
kind (`applies`) are skipped, as the driver does -/
def runEdits (σ : Nat → Bool) : List GEdit → GObjH → M GObjH
  | [], g => pure g
  | e :: es, g =>
    if applies g.o.kind e then do
      let (_, g') ← editH σ g e
      runEdits σ es g'
    else runEdits σ es g

theorem runEdits_inv (σ : Nat → Bool) (es : List GEdit) (g : GObjH) (h : H) (own : List Nat) (i : GInv g h own) :
    GInv ((runEdits σ es g).run h).1 ((runEdits σ es g).run h).2 own := by
  induction es generalizing g h with
  | nil => exact i
  | cons e es ih =>
    unfold runEdits
    by_cases ha : applies g.o.kind e = true
    · simp only [ha, if_true]
      rw [run_bind]
      exact ih _ _ (editH_inv σ g e h own i ha)
    · simp only [ha, Bool.false_eq_true, if_false]
      exact ih _ _ i

def lifecycle (σ : Nat → Bool) (k : GKind) (a : GArgs) (edits : List GEdit) : M Unit := do
  let (_, g) ← createH σ k a
  let g' ← runEdits σ edits g
  freeH g'

/-- composable form of G1(d): from any clean ledger back to the same clean ledger -/
theorem lifecycle_clean (σ : Nat → Bool) (k : GKind) (a : GArgs) (edits : List GEdit) (h : H) (own : List Nat) (c : Clean h own) :
    Clean ((lifecycle σ k a edits).run h).2 own := by
  unfold lifecycle
  rw [run_bind]
  show Clean ((runEdits σ edits ((createH σ k a).run h).1.2 >>= fun g' => freeH g').run ((createH σ k a).run h).2).2 own
  rw [run_bind]
  exact freeH_clean _ _ own (runEdits_inv σ edits _ _ own (createH_inv σ k a h own c))

theorem clean_nil_live {h : H} (c : Clean h []) : h.live = [] ∧ h.bad = 0 := by
  refine ⟨?_, c.bad⟩
  apply List.eq_nil_iff_forall_not_mem.mpr
  intro x hx
  exact absurd ((c.mem x).mp hx) (by simp)

/-- **G1(d)** for every kind, all arguments, every list of edits and every fault schedule: create,
then the edits in order (return codes ignored; edits that are not offered for the kind are skipped,
see `applies`), then `free_<kind>`, from the empty ledger:
nothing stays allocated, nothing was released twice or invalidly -/
theorem C14_generator_lifecycle (σ : Nat → Bool) (k : GKind) (a : GArgs) (edits : List GEdit) :
    ((lifecycle σ k a edits).run {}).2.live = [] ∧ ((lifecycle σ k a edits).run {}).2.bad = 0 :=
  clean_nil_live (lifecycle_clean σ k a edits {} [] clean_init)


/-! ## G2 classification -/

/-- the classified frame owns exactly its radiotap-info block and its body copy -/
structure FrameInv (fh : FrameH) (h : H) (own : List Nat) : Prop where
  clean : Clean h (blocks fh.rtPtr ++ (blocks fh.bodyPtr ++ own))
  rtFresh : ∀ id, fh.rtPtr = some id → id ∉ own
  bodyFresh : ∀ id, fh.bodyPtr = some id → id ∉ own
  distinct : ∀ i j, fh.rtPtr = some i → fh.bodyPtr = some j → i ≠ j

theorem frameInv_nobody (f : Option Frame) (rtPtr : Ptr) (h : H) (own : List Nat)
    (c : Clean h (blocks rtPtr ++ own)) (hf : ∀ id, rtPtr = some id → id ∉ own) :
    FrameInv { f := f, rtPtr := rtPtr } h own :=
  ⟨by simpa [blocks] using c, hf, by simp, by simp⟩

theorem classifyTail_inv (σ : Nat → Bool) (rtPtr : Ptr) (o : Outcome Frame) (h : H) (own : List Nat)
    (c : Clean h (blocks rtPtr ++ own)) (hf : ∀ id, rtPtr = some id → id ∉ own) :
    FrameInv ((classifyTail σ rtPtr o).run h).1.2 ((classifyTail σ rtPtr o).run h).2 own := by
  unfold classifyTail
  cases o with
  | err e => exact frameInv_nobody _ _ _ _ c hf
  | fault e => exact frameInv_nobody _ _ _ _ c hf
  | ok fr =>
    simp only []
    by_cases hb : fr.len - fr.headerLen > 0
    · simp only [hb, if_true]
      rw [run_bind]
      rcases malloc_spec σ (fr.len - fr.headerLen) h _ c with ⟨hn, cn⟩ | ⟨id, hs, hid, cs⟩
      · simp only [hn, run_pure]
        exact frameInv_nobody _ _ _ _ cn hf
      · simp only [hs, run_pure]
        refine ⟨cs.congr ?_, hf, ?_, ?_⟩
        · intro x
          simp only [blocks, Option.toList, List.mem_cons, List.mem_append, List.not_mem_nil, or_false]
          constructor
          · rintro (h | h | h) <;> simp [h]
          · rintro (h | h | h) <;> simp [h]
        · intro j hj hm
          cases hj
          exact hid (List.mem_append_right _ hm)
        · intro i j hi hj he
          cases hj
          exact hid (List.mem_append_left _ ((mem_blocks _ _).mpr (he ▸ hi)))
    · simp only [hb, if_false, run_pure]
      exact frameInv_nobody _ _ _ _ c hf

/-- **G2** `libwifi_get_wifi_frame` on every path (success, rejection, failed allocation of either
block): what was allocated is recorded in the returned frame, fresh, distinct, nothing else -/
theorem classifyH_inv (σ : Nat → Bool) (rt : Bool) (bs : Bytes) (h : H) (own : List Nat) (c : Clean h own) :
    FrameInv ((classifyH σ rt bs).run h).1.2 ((classifyH σ rt bs).run h).2 own := by
  have c0 : Clean h (blocks none ++ own) := by simpa [blocks] using c
  unfold classifyH
  cases classifyPre rt bs with
  | err e => exact frameInv_nobody _ _ _ _ c0 (by simp)
  | fault e => exact frameInv_nobody _ _ _ _ c0 (by simp)
  | ok p =>
    simp only []
    cases rt with
    | false =>
      simp only [Bool.false_eq_true, if_false, false_and]
      rw [run_bind]
      simp only [run_pure]
      exact classifyTail_inv σ none _ h own c0 (by simp)
    | true =>
      simp only [if_true, true_and]
      rw [run_bind]
      rcases malloc_spec σ rtInfoSize h own c with ⟨hn, cn⟩ | ⟨id, hs, hid, cs⟩
      · simp only [hn, Option.isNone_none, if_true, run_pure]
        exact frameInv_nobody _ _ _ _ (by simpa [blocks] using cn) (by simp)
      · simp only [hs, Option.isNone_some, Bool.false_eq_true, if_false]
        exact classifyTail_inv σ (some id) _ _ own (by simpa [blocks] using cs) (fun i hi => by cases hi; exact hid)

/-- the documented release of a classified frame restores the ledger -/
theorem freeFrameH_clean (fh : FrameH) (h : H) (own : List Nat) (i : FrameInv fh h own) :
    Clean ((freeFrameH fh).run h).2 own := by
  unfold freeFrameH
  rw [run_bind]
  have hp : ∀ id, fh.rtPtr = some id → id ∉ blocks fh.bodyPtr ++ own := by
    intro id hid hm
    rcases List.mem_append.mp hm with hm | hm
    · exact i.distinct id id hid ((mem_blocks _ _).mp hm) rfl
    · exact i.rtFresh id hid hm
  exact free_spec fh.bodyPtr _ own (free_spec fh.rtPtr h _ i.clean hp) i.bodyFresh

theorem classifyTail_report (σ : Nat → Bool) (rtPtr : Ptr) (o : Outcome Frame) (h : H) :
    (((classifyTail σ rtPtr o).run h).1.2.f.isSome → ((classifyTail σ rtPtr o).run h).1.1 = 0) ∧
    (((classifyTail σ rtPtr o).run h).1.2.bodyPtr.isSome → ((classifyTail σ rtPtr o).run h).1.2.f.isSome) := by
  unfold classifyTail
  cases o with
  | err e => (simp only [run_pure]; simp)
  | fault e => (simp only [run_pure]; simp)
  | ok fr =>
    simp only []
    split
    · rw [run_bind]
      split <;> (simp only [run_pure]; simp)
    · (simp only [run_pure]; simp)

/-- a classified frame is handed out only together with return value 0, and a body copy only
together with a classified frame -/
theorem classifyH_report (σ : Nat → Bool) (rt : Bool) (bs : Bytes) (h : H) :
    (((classifyH σ rt bs).run h).1.2.f.isSome → ((classifyH σ rt bs).run h).1.1 = 0) ∧
    (((classifyH σ rt bs).run h).1.2.bodyPtr.isSome → ((classifyH σ rt bs).run h).1.2.f.isSome) := by
  unfold classifyH
  cases classifyPre rt bs with
  | err e => (simp only [run_pure]; simp)
  | fault e => (simp only [run_pure]; simp)
  | ok p =>
    simp only []
    cases rt with
    | false =>
      simp only [Bool.false_eq_true, if_false, false_and]
      rw [run_bind]
      simp only [run_pure]
      exact classifyTail_report σ none _ h
    | true =>
      simp only [if_true, true_and]
      rw [run_bind]
      split
      · simp only [run_pure]; simp
      · exact classifyTail_report σ _ _ _

def classifyLifecycle (σ : Nat → Bool) (rt : Bool) (bs : Bytes) : M Unit := do
  let (_, fh) ← classifyH σ rt bs
  freeFrameH fh

/-- composable form of the classification lifecycle -/
theorem classifyLifecycle_clean (σ : Nat → Bool) (rt : Bool) (bs : Bytes) (h : H) (own : List Nat) (c : Clean h own) :
    Clean ((classifyLifecycle σ rt bs).run h).2 own := by
  unfold classifyLifecycle
  rw [run_bind]
  exact freeFrameH_clean _ _ own (classifyH_inv σ rt bs h own c)

/-- **G2 corollary** classify then release, every byte string, both modes, every schedule -/
theorem C14_classify_lifecycle (σ : Nat → Bool) (rt : Bool) (bs : Bytes) :
    ((classifyLifecycle σ rt bs).run {}).2.live = [] ∧ ((classifyLifecycle σ rt bs).run {}).2.bad = 0 :=
  clean_nil_live (classifyLifecycle_clean σ rt bs {} [] clean_init)

/-! ## G3 pipeline -/

def parseAll (σ : Nat → Bool) : List MKind → Frame → M Unit
  | [], _ => pure ()
  | k :: ks, f => do
    let _ ← parseReleaseH σ k f
    parseAll σ ks f

theorem parseAll_clean (σ : Nat → Bool) (ks : List MKind) (f : Frame) (h : H) (own : List Nat) (c : Clean h own) :
    Clean ((parseAll σ ks f).run h).2 own := by
  induction ks generalizing h with
  | nil => exact c
  | cons k ks ih =>
    unfold parseAll
    rw [run_bind]
    exact ih _ (LWV.Props.C14.C14_parse_release σ k f h own c)

/-- the parsers applied to a classified frame (none when classification failed) -/
def parseClassified (σ : Nat → Bool) (ks : List MKind) (fh : FrameH) : M Unit :=
  match fh.f with
  | some f => parseAll σ ks f
  | none => pure ()

theorem parseClassified_inv (σ : Nat → Bool) (ks : List MKind) (fh : FrameH) (h : H) (own : List Nat) (i : FrameInv fh h own) :
    FrameInv fh ((parseClassified σ ks fh).run h).2 own := by
  refine { i with clean := ?_ }
  unfold parseClassified
  cases fh.f with
  | none => exact i.clean
  | some f => exact parseAll_clean σ ks f h _ i.clean

def pipeline (σ : Nat → Bool) (rt : Bool) (bs : Bytes) (ks : List MKind) : M Unit := do
  let (_, fh) ← classifyH σ rt bs
  parseClassified σ ks fh
  freeFrameH fh

/-- **G3** classify, any list of parser calls (each followed by the release of its output) on the
classified frame, then the release of the frame: the ledger is restored -/
theorem pipeline_clean (σ : Nat → Bool) (rt : Bool) (bs : Bytes) (ks : List MKind) (h : H) (own : List Nat) (c : Clean h own) :
    Clean ((pipeline σ rt bs ks).run h).2 own := by
  unfold pipeline
  rw [run_bind]
  show Clean ((parseClassified σ ks ((classifyH σ rt bs).run h).1.2 >>= fun _ => freeFrameH ((classifyH σ rt bs).run h).1.2).run ((classifyH σ rt bs).run h).2).2 own
  rw [run_bind]
  exact freeFrameH_clean _ _ own (parseClassified_inv σ ks _ _ own (classifyH_inv σ rt bs h own c))

/-- **G3 corollary** from the empty ledger -/
theorem C14_pipeline (σ : Nat → Bool) (rt : Bool) (bs : Bytes) (ks : List MKind) :
    ((pipeline σ rt bs ks).run {}).2.live = [] ∧ ((pipeline σ rt bs ks).run {}).2.bad = 0 :=
  clean_nil_live (pipeline_clean σ rt bs ks {} [] clean_init)

/-! ## G4 failure reporting -/

theorem andThen_run (m1 : M (Int × TagsH)) (f : TagsH → M (Int × TagsH)) (h : H) :
    (andThen m1 f).run h = if (m1.run h).1.1 ≠ 0 then m1.run h else (f (m1.run h).1.2).run (m1.run h).2 := by
  unfold andThen
  rw [run_bind]
  generalize m1.run h = res
  obtain ⟨⟨r, t⟩, h1⟩ := res
  simp only
  by_cases hr : r = 0
  · simp only [hr, ne_eq, not_true_eq_false, if_false]
  · simp only [hr, ne_eq, not_false_eq_true, if_true, run_pure]

theorem andThen_zero (m1 : M (Int × TagsH)) (f : TagsH → M (Int × TagsH)) (h : H)
    (hz : ((andThen m1 f).run h).1.1 = 0) :
    (m1.run h).1.1 = 0 ∧ (andThen m1 f).run h = (f (m1.run h).1.2).run (m1.run h).2 := by
  rw [andThen_run] at hz ⊢
  by_cases hr : (m1.run h).1.1 = 0
  · simp only [hr, ne_eq, not_true_eq_false, if_false]
    exact ⟨trivial, trivial⟩
  · simp only [hr, ne_eq, not_false_eq_true, if_true] at hz

theorem setTagH_zero (σ : Nat → Bool) (th : TagsH) (num : Nat) (data : Bytes) (h : H) (own : List Nat) (l : Ledger th h own)
    (hz : ((setTagH σ th num data).run h).1.1 = 0) :
    setTag th.t num data = .ok (0, ((setTagH σ th num data).run h).1.2.t) := by
  rcases (setTagH_ok σ th num data h own l).1 with ⟨hr, _⟩ | hp
  · omega
  · rw [hz] at hp; exact hp

theorem quickAddTagH_zero (σ : Nat → Bool) (th : TagsH) (num : Nat) (data : Bytes) (h : H) (own : List Nat) (l : Ledger th h own)
    (hz : ((quickAddTagH σ th num data).run h).1.1 = 0) :
    quickAddTag th.t num data = .ok ((quickAddTagH σ th num data).run h).1.2.t := by
  rcases (quickAddTagH_ok σ th num data h own l).1 with ⟨hr, _⟩ | ⟨_, hp⟩
  · omega
  · exact hp

/-- success of the initial tag edits is never reported after a lost allocation -/
theorem initialTagsH_zero (σ : Nat → Bool) (k : GKind) (a : GArgs) (h : H) (own : List Nat) (c : Clean h own)
    (hz : ((initialTagsH σ k a).run h).1.1 = 0) :
    initialTags k a = .ok (0, ((initialTagsH σ k a).run h).1.2.t) := by
  have l0 := ledger_empty h own c
  have setset : ∀ n1 d1 n2 d2,
      ((andThen (setTagH σ {} n1 d1) (fun t => setTagH σ t n2 d2)).run h).1.1 = 0 →
      (do let (r, t) ← setTag Tags.empty n1 d1; if r ≠ 0 then Outcome.ok (r, t) else setTag t n2 d2)
        = .ok (0, ((andThen (setTagH σ {} n1 d1) (fun t => setTagH σ t n2 d2)).run h).1.2.t) := by
    intro n1 d1 n2 d2 hz
    obtain ⟨h1z, heq⟩ := andThen_zero _ _ _ hz
    rw [heq] at hz ⊢
    have s1 := setTagH_ok σ {} n1 d1 h own l0
    have p1 := setTagH_zero σ {} n1 d1 h own l0 h1z
    have p2 := setTagH_zero σ _ n2 d2 _ own s1.2 hz
    have p1' : setTag Tags.empty n1 d1 = .ok (0, ((setTagH σ {} n1 d1).run h).1.2.t) := p1
    simp only [p1', Outcome.bind_ok, ne_eq, not_true_eq_false, if_false]
    exact p2
  have addadd : ∀ n1 d1 n2 d2,
      ((andThen (quickAddTagH σ {} n1 d1) (fun t => quickAddTagH σ t n2 d2)).run h).1.1 = 0 →
      (do let t ← quickAddTag Tags.empty n1 d1; let t ← quickAddTag t n2 d2; Outcome.ok ((0 : Int), t))
        = .ok (0, ((andThen (quickAddTagH σ {} n1 d1) (fun t => quickAddTagH σ t n2 d2)).run h).1.2.t) := by
    intro n1 d1 n2 d2 hz
    obtain ⟨h1z, heq⟩ := andThen_zero _ _ _ hz
    rw [heq] at hz ⊢
    have s1 := quickAddTagH_ok σ {} n1 d1 h own l0
    have p1 : quickAddTag Tags.empty n1 d1 = _ := quickAddTagH_zero σ {} n1 d1 h own l0 h1z
    have p2 := quickAddTagH_zero σ _ n2 d2 _ own s1.2 hz
    simp only [p1, Outcome.bind_ok, p2]
  rw [initialTagsH_eq] at hz ⊢
  cases k <;> simp only [] at hz ⊢
  case beacon => exact setset _ _ _ _ hz
  case probeResp => exact setset _ _ _ _ hz
  case probeReq => exact addadd _ _ _ _ hz
  case assocReq => exact addadd _ _ _ _ hz
  case reassocReq => exact addadd _ _ _ _ hz
  case assocResp =>
    obtain ⟨h1z, heq⟩ := andThen_zero _ _ _ hz
    rw [heq] at hz ⊢
    have s1 := setTagH_ok σ {} tagDs [UInt8.ofNat a.ch] h own l0
    have p1 : setTag Tags.empty tagDs [UInt8.ofNat a.ch] = _ := setTagH_zero σ {} _ _ h own l0 h1z
    have p2 := quickAddTagH_zero σ _ tagSuppRates Gen.s_LIBWIFI_DEFAULT_SUPP_RATES _ own s1.2 hz
    simp only [initialTags, p1, Outcome.bind_ok, p2]
  case reassocResp => exact setTagH_zero σ {} _ _ h own l0 hz
  case timingAd =>
    have p1 : quickAddTag Tags.empty tagTimeAdv (timingElement a) = _ := quickAddTagH_zero σ {} _ _ h own l0 hz
    simp only [initialTags, p1, Outcome.bind_ok]
  all_goals rfl

theorem create_of_initialTags (k : GKind) (a : GArgs) (r : Int) (t : Tags) (hi : initialTags k a = .ok (r, t)) :
    create k a = .ok (r, { baseObj k a with tags := t }) := by
  unfold baseObj create
  rw [hi]
  simp only [Outcome.bind_ok]
  cases k <;> first | rfl | (cases hi; rfl)

/-- **G4** if `create_<kind>` returns 0 — under any schedule — the object it built is exactly the
fault-free (pure model's) object: success is never reported after a lost allocation -/
theorem createH_zero_pure (σ : Nat → Bool) (k : GKind) (a : GArgs) (h : H) (own : List Nat) (c : Clean h own)
    (hz : ((createH σ k a).run h).1.1 = 0) :
    create k a = .ok (0, ((createH σ k a).run h).1.2.o) := by
  rw [createH_run] at hz ⊢
  exact create_of_initialTags k a 0 _ (initialTagsH_zero σ k a h own c hz)


/-! ### the fault-free schedule -/

/-- no allocation request fails -/
def nf : Nat → Bool := fun _ => false

theorem malloc_nf (n : Nat) (h : H) : ((malloc nf n).run h).1 = some h.next := rfl

theorem realloc_nf (p : Ptr) (n : Nat) (h : H) : ∃ id, ((realloc nf p n).run h).1 = some id := ⟨_, rfl⟩

theorem addTagH_nf (th : TagsH) (tag : Tag) (h : H) : ((addTagH nf th tag).run h).1.1 = 0 := by
  unfold addTagH
  simp only []
  by_cases h0 : th.t.length = 0
  · simp only [h0, if_true]
    rw [run_bind]
    simp only [malloc_nf, run_pure]
  · simp only [h0, if_false]
    rw [run_bind]
    obtain ⟨id, hid⟩ := realloc_nf th.ptr (th.t.length + (2 + tag.len.toNat)) h
    simp only [hid, run_pure]

theorem quickAddTagH_nf (th : TagsH) (num : Nat) (data : Bytes) (h : H) :
    ((quickAddTagH nf th num data).run h).1.1 = 0 := by
  unfold quickAddTagH
  rw [run_bind]
  simp only [malloc_nf]
  rw [run_bind, run_bind]
  simp only [run_pure]
  exact addTagH_nf _ _ _

/-- when no allocation fails the setter returns exactly the pure model's result -/
theorem setTagH_nf (th : TagsH) (num : Nat) (data : Bytes) (h : H) (own : List Nat) (l : Ledger th h own) :
    setTag th.t num data = .ok (((setTagH nf th num data).run h).1.1, ((setTagH nf th num data).run h).1.2.t) := by
  obtain ⟨c, hc⟩ := checkTag_no_fault th.t num
  have hq := quickAddTagH_ok nf th num data h own l
  have hq0 := quickAddTagH_nf th num data h
  unfold setTagH setTag
  simp only [hc, okOr]
  rw [run_bind]
  generalize (quickAddTagH nf th num data).run h = res at hq hq0
  obtain ⟨⟨r, th1⟩, h1⟩ := res
  simp only at hq hq0 ⊢
  subst hq0
  obtain ⟨hd, l1⟩ := hq
  rcases hd with ⟨hr, _⟩ | ⟨_, hp⟩
  · omega
  · simp only [ne_eq, not_true_eq_false, if_false]
    by_cases hhad : th.t.length ≠ 0 ∧ c > 0
    · have hrm := removeTagH_ok nf th1 num h1 own l1 (findTag_no_fault _ _)
      simp only [hhad]
      simp only [not_false_eq_true, if_true, Outcome.bind_ok, Outcome.pure_eq, hp, hhad.2, decide_true]
      exact hrm.1
    · simp only [hhad, if_false, run_pure]
      by_cases h0 : th.t.length = 0
      · simp [h0, hp]
      · have hc0 : ¬ c > 0 := fun hh => hhad ⟨h0, hh⟩
        simp [h0, hp, hc0]

theorem quickAddTagH_nf_pure (th : TagsH) (num : Nat) (data : Bytes) (h : H) (own : List Nat) (l : Ledger th h own) :
    quickAddTag th.t num data = .ok ((quickAddTagH nf th num data).run h).1.2.t :=
  quickAddTagH_zero nf th num data h own l (quickAddTagH_nf th num data h)

theorem setTag_empty_code (num : Nat) (data : Bytes) (r : Int) (t : Tags) (hs : setTag Tags.empty num data = .ok (r, t)) : r = 0 := by
  obtain ⟨t', ht'⟩ := quickAdd_pure_ok Tags.empty num data
  simp [setTag, Tags.empty] at hs
  have ht'' : quickAddTag ⟨0, []⟩ num data = .ok t' := ht'
  simp [ht''] at hs
  exact hs.1.symm

theorem initialTagsH_nf (k : GKind) (a : GArgs) (h : H) (own : List Nat) (c : Clean h own) :
    initialTags k a = .ok (((initialTagsH nf k a).run h).1.1, ((initialTagsH nf k a).run h).1.2.t) := by
  have l0 := ledger_empty h own c
  have setset : ∀ n1 d1 n2 d2,
      (do let (r, t) ← setTag Tags.empty n1 d1; if r ≠ 0 then Outcome.ok (r, t) else setTag t n2 d2)
        = .ok (((andThen (setTagH nf {} n1 d1) (fun t => setTagH nf t n2 d2)).run h).1.1,
               ((andThen (setTagH nf {} n1 d1) (fun t => setTagH nf t n2 d2)).run h).1.2.t) := by
    intro n1 d1 n2 d2
    have s1 := setTagH_ok nf {} n1 d1 h own l0
    have p1 : setTag Tags.empty n1 d1 = _ := setTagH_nf {} n1 d1 h own l0
    have p2 := setTagH_nf _ n2 d2 _ own s1.2
    rw [andThen_run]
    simp only [p1, Outcome.bind_ok]
    by_cases hr : ((setTagH nf {} n1 d1).run h).1.1 = 0
    · simp only [hr, ne_eq, not_true_eq_false, if_false]
      exact p2
    · simp only [hr, ne_eq, not_false_eq_true, if_true]
  have addadd : ∀ n1 d1 n2 d2,
      (do let t ← quickAddTag Tags.empty n1 d1; let t ← quickAddTag t n2 d2; Outcome.ok ((0 : Int), t))
        = .ok (((andThen (quickAddTagH nf {} n1 d1) (fun t => quickAddTagH nf t n2 d2)).run h).1.1,
               ((andThen (quickAddTagH nf {} n1 d1) (fun t => quickAddTagH nf t n2 d2)).run h).1.2.t) := by
    intro n1 d1 n2 d2
    have s1 := quickAddTagH_ok nf {} n1 d1 h own l0
    have p1 : quickAddTag Tags.empty n1 d1 = _ := quickAddTagH_nf_pure {} n1 d1 h own l0
    have p2 := quickAddTagH_nf_pure _ n2 d2 _ own s1.2
    rw [andThen_run]
    simp only [quickAddTagH_nf, ne_eq, not_true_eq_false, if_false, p1, Outcome.bind_ok, p2]
  rw [initialTagsH_eq]
  cases k <;> simp only []
  case beacon => exact setset _ _ _ _
  case probeResp => exact setset _ _ _ _
  case probeReq => exact addadd _ _ _ _
  case assocReq => exact addadd _ _ _ _
  case reassocReq => exact addadd _ _ _ _
  case assocResp =>
    have s1 := setTagH_ok nf {} tagDs [UInt8.ofNat a.ch] h own l0
    have p1 : setTag Tags.empty tagDs [UInt8.ofNat a.ch] = _ := setTagH_nf {} _ _ h own l0
    have r0 := setTag_empty_code _ _ _ _ p1
    have p2 := quickAddTagH_nf_pure _ tagSuppRates Gen.s_LIBWIFI_DEFAULT_SUPP_RATES _ own s1.2
    rw [andThen_run]
    simp only [r0, ne_eq, not_true_eq_false, if_false, quickAddTagH_nf]
    simp only [initialTags, p1, Outcome.bind_ok, p2]
  case reassocResp => exact setTagH_nf {} _ _ h own l0
  case timingAd =>
    have p1 : quickAddTag Tags.empty tagTimeAdv (timingElement a) = _ := quickAddTagH_nf_pure {} _ _ h own l0
    simp only [initialTags, p1, Outcome.bind_ok, quickAddTagH_nf]
  all_goals rfl

/-- **G4** when no allocation fails `create_<kind>` returns the pure model's return value and
builds the pure model's object -/
theorem createH_nf_pure (k : GKind) (a : GArgs) (h : H) (own : List Nat) (c : Clean h own) :
    create k a = .ok (((createH nf k a).run h).1.1, ((createH nf k a).run h).1.2.o) := by
  rw [createH_run]
  exact create_of_initialTags k a _ _ (initialTagsH_nf k a h own c)

/-- **G4** in particular (SSID within the one-octet limit, `C03_create`) it returns 0 -/
theorem createH_nf_zero (k : GKind) (a : GArgs) (hs : (cstr a.ssid).length ≤ 255) (h : H) (own : List Nat) (c : Clean h own) :
    ((createH nf k a).run h).1.1 = 0 := by
  obtain ⟨o, ho, _⟩ := LWV.Props.C03.C03_create k a hs
  have := createH_nf_pure k a h own c
  rw [ho] at this
  injection this with this
  injection this with h1 _
  exact h1.symm


/-! ## non-vacuity -/

/-- fails exactly the second allocation request -/
def failSecond : Nat → Bool := fun n => n == 1

/-- a beacon whose second request (the tag block of the SSID tag) fails: `create` reports
`-ENOMEM`, nothing is owned, nothing is live -/
example :
    let r := (createH failSecond .beacon { ssid := [65, 66], ch := 6 }).run {}
    r.1.1 = -ENOMEM ∧ r.1.2.tags.ptr = none ∧ r.2.faults = 1 ∧ r.2.reqs = 2 ∧ r.2.live = [] := by decide +kernel

/-- the same beacon carried through edits and the release: 6 requests, 1 fault, empty ledger -/
example :
    let r := (lifecycle failSecond .beacon { ssid := [65, 66], ch := 6 } [.tag (.add 7 [1, 2]), .tag (.setSsid [67])]).run {}
    r.2.live = [] ∧ r.2.bad = 0 ∧ r.2.reqs = 6 ∧ r.2.faults = 1 := by decide +kernel

/-- the invariant's hypotheses are satisfiable: the empty ledger is clean -/
example (σ : Nat → Bool) : GInv ((createH σ .assocResp {}).run {}).1.2 ((createH σ .assocResp {}).run {}).2 [] :=
  createH_inv σ _ _ _ _ clean_init

/-- an action object with details, fault-free: created, two detail edits (one realloc), released -/
example :
    let r := (lifecycle nf .action {} [.detail [1], .detail [2, 3], .tag (.add 1 [2])]).run {}
    r.2.live = [] ∧ r.2.bad = 0 ∧ r.2.reqs = 2 := by decide +kernel

/-- the history that used to leak (256 detail octets wrapped the one-octet length to 0, the next
`add_action_detail` allocated over the pointer): the first edit is now refused with `-EINVAL` before
any allocation, the second stores one octet, and the release leaves nothing -/
def wrapHistory : M (Int × Int) := do
  let (_, g) ← createH nf .action {}
  let (r1, g) ← editH nf g (.detail (List.replicate 256 0))
  let (r2, g) ← editH nf g (.detail [1])
  freeH g
  pure (r1, r2)

example :
    (wrapHistory.run {}).1 = (-EINVAL, 1) ∧ (wrapHistory.run {}).2.live = [] ∧ (wrapHistory.run {}).2.bad = 0 ∧
    (wrapHistory.run {}).2.reqs = 1 := by decide +kernel

/-- the same history through the guarded runner -/
example :
    let r := (lifecycle nf .action {} [.detail (List.replicate 256 0), .detail [1], .freeDetail]).run {}
    r.2.live = [] ∧ r.2.bad = 0 ∧ r.2.reqs = 1 := by decide +kernel

def bcn : Bytes := [0x80, 0] ++ List.replicate 22 0 ++ List.replicate 12 0 ++ [0, 2, 65, 66]
def rtb : Bytes := [0, 0, 8, 0, 0, 0, 0, 0] ++ bcn

/-- classification whose body copy cannot be allocated: `-ENOMEM`, the radiotap block is still
recorded in the returned frame and the documented release frees it -/
example :
    let r := (classifyH failSecond true rtb).run {}
    r.1.1 = -ENOMEM ∧ r.1.2.rtPtr = some 1 ∧ r.1.2.bodyPtr = none ∧ r.2.live = [1] ∧
    ((freeFrameH r.1.2).run r.2).2.live = [] ∧ ((freeFrameH r.1.2).run r.2).2.bad = 0 := by decide +kernel

/-- fault-free classification owns two blocks -/
example :
    let r := (classifyH nf true rtb).run {}
    r.1.1 = 0 ∧ r.1.2.rtPtr = some 1 ∧ r.1.2.bodyPtr = some 2 ∧ r.2.live = [2, 1] := by decide +kernel

/-- pipeline with the third request (the first parser's allocation) failing -/
example :
    let r := (pipeline (fun n => n == 2) true rtb [.beacon, .probeResp, .beacon]).run {}
    r.2.live = [] ∧ r.2.bad = 0 ∧ r.2.reqs = 4 ∧ r.2.faults = 1 := by decide +kernel

end LWV.Props.C14Full
