import LWV.Props.C03
import LWV.Lemmas.RtGen
import LWV.Model.Misc
/-
C07 — serialisation never writes outside the caller's buffer.
-/
namespace LWV.Props.C07
open LWV LWV.Model LWV.Spec LWV.Props.C03

/-- **C07 (dump)** for every object the generators can produce (any arguments, any history of
appended tags or details — `Good` is exactly what C03 establishes) and EVERY buffer: a buffer
smaller than the encoding is refused and left untouched; otherwise exactly the encoding is written
from the first byte, the reported count is its length, and the rest of the buffer is unchanged. -/
theorem C07_dump (k : GKind) (a : GArgs) (o : GObj) (es : List Elem) (det : Bytes) (g : Good k a o es det) (buf : Bytes) :
    dumpInto o buf =
      if buf.length < (Spec.frame (sk k) (sa a) es det).length then .ok (-EINVAL, buf)
      else .ok (((Spec.frame (sk k) (sa a) es det).length : Nat),
                Spec.frame (sk k) (sa a) es det ++ buf.drop (Spec.frame (sk k) (sa a) es det).length) := by
  unfold dumpInto
  rw [g.len, g.enc]
  by_cases h : buf.length < (Spec.frame (sk k) (sa a) es det).length
  · have : (Spec.frame (sk k) (sa a) es det).length > buf.length := h
    simp [h, this]
  · have : ¬ (Spec.frame (sk k) (sa a) es det).length > buf.length := h
    simp [h, this]

/-- the buffer keeps its size, so "nothing beyond" is literally the untouched suffix -/
theorem C07_dump_length (k : GKind) (a : GArgs) (o : GObj) (es : List Elem) (det : Bytes) (g : Good k a o es det) (buf : Bytes) :
    ∃ r buf', dumpInto o buf = .ok (r, buf') ∧ buf'.length = buf.length := by
  rw [C07_dump k a o es det g buf]
  split
  · exact ⟨_, _, rfl, rfl⟩
  · refine ⟨_, _, rfl, ?_⟩
    simp only [List.length_append, List.length_drop]; omega

/-- **C07 (tag)** single-tag serialisation, for every tag built by `libwifi_create_tag` and every buffer -/
theorem C07_tag (num : Nat) (d : Bytes) (buf : Bytes) :
    let tag := createTag num d
    let enc : Bytes := tag.num :: tag.len :: d.take tag.len.toNat
    dumpTag tag buf = if buf.length < enc.length then .ok (-EINVAL, buf) else .ok ((enc.length : Nat), enc ++ buf.drop enc.length) := by
  intro tag enc
  have hl : tag.len.toNat ≤ d.length := by
    show (UInt8.ofNat d.length).toNat ≤ d.length
    rw [UInt8.toNat_ofNat']; exact Nat.mod_le _ _
  have henc : enc.length = 2 + tag.len.toNat := by
    simp only [enc, List.length_cons, List.length_take]; omega
  unfold dumpTag
  by_cases h : 2 + tag.len.toNat > buf.length
  · have : buf.length < enc.length := by omega
    simp [h, this]
  · have : ¬ buf.length < enc.length := by omega
    have hs : rdSlice "tag body" tag.body 0 tag.len.toNat = .ok (d.take tag.len.toNat) := by
      show rdSlice "tag body" d 0 tag.len.toNat = _
      simp [rdSlice, hl]
    simp only [h, if_false, hs, Outcome.bind_ok, this]
    rfl

/-- **C07 (radiotap)** for ALL 2^32 present words, all field values and up to the documented 16
antennas, generation never writes past its staging area and the header never exceeds the
documented maximum size -/
theorem C07_radiotap_bound (g : RtGen) (ha : g.antennaCount ≤ Gen.m_LIBWIFI_MAX_RADIOTAP_ANTENNAS) :
    ∃ h, createRadiotap g = .ok h ∧ h.length ≤ Gen.m_LIBWIFI_MAX_RADIOTAP_LEN := by
  have h16 : Gen.m_LIBWIFI_MAX_RADIOTAP_ANTENNAS = 16 := by decide
  have h128 : Gen.m_LIBWIFI_MAX_RADIOTAP_LEN = 128 := by decide
  have hN : Gen.rtapNBits = 23 := by decide
  have hcap : rtStagingCap = 120 := by decide
  rw [h16] at ha
  have hw := worst_sum g
  obtain ⟨out, h1, h2⟩ := rtGenLoop_ok g (List.range 23) [] (by rw [hw, hcap]; simp; omega)
  refine ⟨_, by unfold createRadiotap; rw [hN, h1]; rfl, ?_⟩
  rw [hw] at h2
  simp only [List.length_append, List.length_cons, List.length_nil, leBytes_length] at h2 ⊢
  omega

/-- **C07 (random address)** exactly six octets are produced and a requested prefix is kept,
whatever the random source delivers (all, some or none of the requested octets) -/
theorem C07_random_mac (pfx : Option Bytes) (supply : Bytes) :
    (randomMac pfx supply).length = 6 ∧
    (∀ p, pfx = some p → (randomMac pfx supply).take 3 = (p ++ [0, 0, 0]).take 3) := by
  constructor
  · cases pfx with
    | none => simp only [randomMac, getrandom, List.length_append, List.length_replicate, List.length_take]; omega
    | some p => simp only [randomMac, getrandom, List.length_append, List.length_replicate, List.length_take, List.length_cons, List.length_nil]; omega
  · intro p hp
    subst hp
    simp only [randomMac, List.append_assoc]
    rw [List.take_append_of_le_length (by simp)]
    apply List.take_of_length_le
    simp

/-! non-vacuity -/
example : ∃ o, create .auth { alg := 1 } = .ok (0, o) ∧ Good .auth { alg := 1 } o [] [] := by
  obtain ⟨o, h, g⟩ := good_create .auth { alg := 1 } (by decide)
  exact ⟨o, h, by simpa [Spec.initialElems, sk] using g⟩

end LWV.Props.C07
