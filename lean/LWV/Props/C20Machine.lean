import LWV.Props.C20
/-
C20, machine arithmetic — the exact domain on which `libwifi_get_epoch` is defined.

`Props/C20.lean` evaluates the regenerated return expression in `Nat` and shows (`C20_no_overflow`)
that below `sec < 2^43` no intermediate value reaches 2^63.  This file removes the convenience
bound: `evalC` evaluates the same regenerated expression the way the C does — every operand and
every intermediate result is a signed 64-bit `long` (`time_t`, `tv_nsec`, integer literals after the
usual arithmetic conversions), and an operation whose mathematical result does not fit is *undefined*
(`none`), as is a division by zero.  Theorems:

* `evalC_some`      — whenever the machine evaluation is defined it is the `Nat` value;
* `C20_machine_iff` — for the expression in the tree it is defined on exactly the readings whose
                      microsecond value is below 2^63, i.e. up to 9223372036854 s 775807999 ns
                      (`C20_machine_last`, `C20_machine_first_undefined`);
* `C20_machine_monotone` — on ALL readings on which the C is defined the returned
                      `unsigned long long` is non-decreasing in the clock (no `2^43` guard);
* `C20_machine_downward` — the defined readings are downward closed: if the later reading is
                      defined so is every earlier one, so "defined" cannot flicker.
-/
namespace LWV.Props.C20M
open LWV LWV.Model LWV.Props.C20

/-- the range of a non-negative `long` -/
def fits (n : Nat) : Bool := decide (n < 2 ^ 63)

/-- evaluation in signed 64-bit arithmetic; `none` = the C expression is undefined (signed overflow,
a negative difference — never produced by a non-negative clock —, or division by zero) -/
def evalC (sec nsec : Nat) : EExpr → Option Nat
  | .lit n => if fits n then some n else none
  | .sec => if fits sec then some sec else none
  | .nsec => if fits nsec then some nsec else none
  | .add a b =>
    match evalC sec nsec a, evalC sec nsec b with
    | some x, some y => if fits (x + y) then some (x + y) else none
    | _, _ => none
  | .sub a b =>
    match evalC sec nsec a, evalC sec nsec b with
    | some x, some y => if y ≤ x then some (x - y) else none
    | _, _ => none
  | .mul a b =>
    match evalC sec nsec a, evalC sec nsec b with
    | some x, some y => if fits (x * y) then some (x * y) else none
    | _, _ => none
  | .div a b =>
    match evalC sec nsec a, evalC sec nsec b with
    | some x, some y => if y = 0 then none else some (x / y)
    | _, _ => none

/-- a defined machine evaluation is the mathematical value -/
theorem evalC_some (s n : Nat) (e : EExpr) (v : Nat) (h : evalC s n e = some v) :
    v = e.eval s n := by
  induction e generalizing v with
  | lit k => simp only [evalC] at h; split at h <;> simp_all [EExpr.eval]
  | sec => simp only [evalC] at h; split at h <;> simp_all [EExpr.eval]
  | nsec => simp only [evalC] at h; split at h <;> simp_all [EExpr.eval]
  | add a b iha ihb =>
    simp only [evalC] at h
    split at h
    · rename_i x y hx hy
      split at h <;> simp at h
      rw [← h, EExpr.eval, ← iha x hx, ← ihb y hy]
    · simp at h
  | sub a b iha ihb =>
    simp only [evalC] at h
    split at h
    · rename_i x y hx hy
      split at h <;> simp at h
      rw [← h, EExpr.eval, ← iha x hx, ← ihb y hy]
    · simp at h
  | mul a b iha ihb =>
    simp only [evalC] at h
    split at h
    · rename_i x y hx hy
      split at h <;> simp at h
      rw [← h, EExpr.eval, ← iha x hx, ← ihb y hy]
    · simp at h
  | div a b iha ihb =>
    simp only [evalC] at h
    split at h
    · rename_i x y hx hy
      split at h <;> simp at h
      rw [← h, EExpr.eval, ← iha x hx, ← ihb y hy]
    · simp at h

/-- what `libwifi_get_epoch` computes on a clock reading in machine arithmetic -/
def epochC (t : Timespec) : Option Nat :=
  match Gen.epochExpr with
  | some e => evalC t.sec t.nsec e
  | none => none

/-- machine evaluation of the recognised shape (`s < 2^63`, `n < 2^63`: the fields of a
`struct timespec` are `long`s, so this is a fact about the type, not a restriction) -/
theorem evalC_of_shape (e : EExpr) (a b : Nat) (h : e.shape = some (a, b)) (hb : 0 < b)
    (ha : a < 2 ^ 63) (hbb : b < 2 ^ 63) (s n : Nat) (hs : s < 2 ^ 63) (hn : n < 2 ^ 63) :
    evalC s n e = if s * a + n / b < 2 ^ 63 then some (s * a + n / b) else none := by
  have hq : n / b < 2 ^ 63 := Nat.lt_of_le_of_lt (Nat.div_le_self _ _) hn
  have hb0 : b ≠ 0 := by omega
  by_cases hm : s * a < 2 ^ 63
  · unfold EExpr.shape at h
    split at h <;> simp at h <;> obtain ⟨rfl, rfl⟩ := h <;>
      simp [evalC, fits, hs, hm, hn, ha, hbb, hb0, Nat.mul_comm, Nat.add_comm]
  · have hbig : ¬ (s * a + n / b < 2 ^ 63) := by
      generalize n / b = q at *; generalize s * a = m at *; omega
    unfold EExpr.shape at h
    split at h <;> simp at h <;> obtain ⟨rfl, rfl⟩ := h <;>
      simp [evalC, fits, hs, hm, hn, ha, hbb, hb0, Nat.mul_comm, Nat.add_comm] <;>
      (try (generalize n / _ = q at *; generalize s * _ = m at *; omega))

/-- the condition on the regenerated expression, decided by the kernel on every run: it has the
recognised shape `sec*A + nsec/B` with a non-zero divisor and literals that are `long`s -/
def machCondition : Bool :=
  match Gen.epochExpr with
  | some e =>
    match e.shape with
    | some (a, b) => decide (0 < b) && decide (a < 2 ^ 63) && decide (b < 2 ^ 63)
    | none => false
  | none => false

theorem mach_holds : machCondition = true := by decide

/-- **exact domain**: on every clock reading (`tv_sec`, `tv_nsec` non-negative `long`s) the C
computation is defined exactly when the mathematical microsecond value is below 2^63, and then
returns that value -/
theorem C20_machine_iff (t : Timespec) (hs : t.sec < 2 ^ 63) (hn : t.nsec < 2 ^ 63) :
    epochC t = if epoch t < 2 ^ 63 then some (epoch t) else none := by
  have hu := mach_holds
  unfold machCondition at hu
  unfold epochC epoch
  cases he : Gen.epochExpr with
  | none => simp [he] at hu
  | some e =>
    simp only [he] at hu ⊢
    cases hsh : e.shape with
    | none => simp [hsh] at hu
    | some ab =>
      obtain ⟨a, b⟩ := ab
      simp only [hsh, Bool.and_eq_true, decide_eq_true_eq] at hu
      rw [eval_of_shape e a b hsh, evalC_of_shape e a b hsh hu.1.1 hu.1.2 hu.2 _ _ hs hn]

/-- whenever the C is defined, what it returns is the model's value -/
theorem C20_machine_value (t : Timespec) (v : Nat) (h : epochC t = some v) : v = epoch t := by
  unfold epochC at h
  unfold epoch
  cases he : Gen.epochExpr with
  | none => simp [he] at h
  | some e => simp only [he] at h ⊢; exact evalC_some _ _ e v h

/-- **monotone on the whole defined domain** (no `2^43` guard): two readings on which the C is
defined, the second not earlier than the first, give non-decreasing return values -/
theorem C20_machine_monotone (t₁ t₂ : Timespec) (h₁ : t₁.nsec < 10 ^ 9) (hle : t₁.le t₂)
    (v₁ v₂ : Nat) (e₁ : epochC t₁ = some v₁) (e₂ : epochC t₂ = some v₂) : v₁ ≤ v₂ := by
  rw [C20_machine_value t₁ v₁ e₁, C20_machine_value t₂ v₂ e₂]
  exact C20_monotone t₁ t₂ h₁ hle

/-- the defined readings are downward closed in the clock order -/
theorem C20_machine_downward (t₁ t₂ : Timespec) (h₁ : t₁.nsec < 10 ^ 9) (hs₁ : t₁.sec < 2 ^ 63)
    (hs₂ : t₂.sec < 2 ^ 63) (hn₂ : t₂.nsec < 2 ^ 63) (hle : t₁.le t₂)
    (h₂ : (epochC t₂).isSome) : (epochC t₁).isSome := by
  have hm := C20_monotone t₁ t₂ h₁ hle
  rw [C20_machine_iff t₂ hs₂ hn₂] at h₂
  rw [C20_machine_iff t₁ hs₁ (by omega)]
  split at h₂
  · rename_i hlt
    have : epoch t₁ < 2 ^ 63 := Nat.lt_of_le_of_lt hm hlt
    simp [this]
  · simp at h₂

/-- the guard of `C20_no_overflow` is inside the defined domain -/
theorem C20_machine_guard (t : Timespec) (hs : t.sec < 2 ^ 43) (hn : t.nsec < 10 ^ 9) :
    epochC t = some (epoch t) := by
  rw [C20_machine_iff t (by omega) (by omega)]
  simp [C20_no_overflow t hs hn]

/-- the last reading on which the function is defined, and the first on which it is not
(21 Jan of the year 294247) -/
theorem C20_machine_last :
    epochC ⟨9223372036854, 775807999⟩ = some (2 ^ 63 - 1) := by decide
theorem C20_machine_first_undefined : epochC ⟨9223372036854, 775808000⟩ = none := by decide

/-! non-vacuity: the hypotheses of the monotonicity theorem are met beyond the old guard -/
example : epochC ⟨2 ^ 43, 999999999⟩ = some 8796093022208999999 ∧
    epochC ⟨2 ^ 43 + 1, 0⟩ = some 8796093022209000000 ∧
    (⟨2 ^ 43, 999999999⟩ : Timespec).le ⟨2 ^ 43 + 1, 0⟩ := by
  refine ⟨by decide, by decide, ?_⟩
  left; decide

end LWV.Props.C20M
