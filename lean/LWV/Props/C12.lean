import LWV.Model.Eapol
import LWV.Spec.Eapol
/-
C12 — EAPOL-Key frames are recognised, classified and extracted exactly.
-/
namespace LWV.Props.C12
open LWV LWV.Model

/-- **C12 (tables)** the constants the EAPOL routines take from the headers -/
theorem C12_tables :
    llcLen = 8 ∧ eapolMin = 107 ∧ Gen.s_XEROX_OUI = [0, 0, 0] ∧ Gen.m_LLC_TYPE_AUTH = 0x888E ∧
    Gen.m_EAPOL_KEY_INFO_M1 = 0x008A ∧ Gen.m_EAPOL_KEY_INFO_M2 = 0x010A ∧ Gen.m_EAPOL_KEY_INFO_M3 = 0x13CA ∧ Gen.m_EAPOL_KEY_INFO_M4 = 0x030A ∧
    Gen.enum_WPA_HANDSHAKE_PART = [(n!"HANDSHAKE_M1", 1), (n!"HANDSHAKE_M2", 2), (n!"HANDSHAKE_M3", 4), (n!"HANDSHAKE_M4", 8), (n!"HANDSHAKE_INVALID", 16)] ∧
    Gen.off_libwifi_wpa_auth_data_key_info = 5 ∧ Gen.off_libwifi_wpa_key_info_key_length = 2 ∧ Gen.off_libwifi_wpa_key_info_replay_counter = 4 ∧
    Gen.off_libwifi_wpa_key_info_nonce = 12 ∧ Gen.off_libwifi_wpa_key_info_iv = 44 ∧ Gen.off_libwifi_wpa_key_info_rsc = 60 ∧
    Gen.off_libwifi_wpa_key_info_id = 68 ∧ Gen.off_libwifi_wpa_key_info_mic = 76 ∧ Gen.off_libwifi_wpa_key_info_key_data_length = 92 ∧
    Gen.off_libwifi_wpa_key_info_key_data = 94 := by decide +kernel

theorem rdSlice_ok (w : String) (bs : Bytes) (off n : Nat) (h : off + n ≤ bs.length) :
    rdSlice w bs off n = .ok ((bs.drop off).take n) := by simp [rdSlice, h]

theorem rd_getD (w : String) (bs : Bytes) (i : Nat) (h : i < bs.length) : rd w bs i = .ok (bs.getD i 0) := by
  rw [rd_ok h]; simp [List.getD, List.getElem?_eq_getElem h]

theorem beVal_two (bs : Bytes) (off : Nat) (h : off + 1 < bs.length) :
    Spec.beVal bs off 2 = be16 (bs.getD off 0) (bs.getD (off + 1) 0) := by
  unfold Spec.beVal be16
  have h1 : (bs.drop off).take 2 = [bs.getD off 0, bs.getD (off + 1) 0] := by
    apply List.ext_getElem
    · simp only [List.length_take, List.length_drop, List.length_cons, List.length_nil]; omega
    · intro i h1 h2
      simp only [List.length_cons, List.length_nil] at h2
      have : i = 0 ∨ i = 1 := by omega
      rcases this with rfl | rfl <;> simp [List.getD, List.getElem?_eq_getElem (show off < bs.length by omega),
        List.getElem?_eq_getElem h]
  rw [h1]
  simp [List.foldl]
  omega

/-- a frame as the classifier produces it: `len` counts header and body -/
def Coherent (f : Frame) : Prop := f.len = f.headerLen + f.body.length

/-- **C12 (recognise)** a frame is reported as a WPA handshake exactly when it is a data frame
whose body starts with an LLC/SNAP header carrying the zero OUI and EtherType 0x888E and holds a
complete EAPOL-Key descriptor (107 octets); otherwise a negative code is returned -/
theorem C12_recognise (f : Frame) (hc : Coherent f) :
    checkHandshake f = .ok (if Spec.isHandshake (frameType f == 2) f.body then 1 else -EINVAL) := by
  obtain ⟨h8, h107, hx, hty, _⟩ := C12_tables
  unfold checkHandshake Spec.isHandshake Spec.eapolMinBody
  rw [h8, h107, hx, hty, hc]
  by_cases hd : frameType f = 2
  · simp only [hd, ne_eq, not_true_eq_false, if_false, beq_self_eq_true, Bool.true_and]
    by_cases hl8 : f.body.length < 8
    · have : ¬ (107 ≤ f.body.length) := by omega
      simp [hl8, this]
    · have hl : ¬ (f.headerLen + f.body.length < f.headerLen + 8) := by omega
      simp only [hl, if_false]
      rw [rdSlice_ok _ _ 3 3 (by omega)]
      simp only [Outcome.bind_ok]
      by_cases ho : (f.body.drop 3).take 3 = [0, 0, 0]
      · simp only [ho, ne_eq, not_true_eq_false, if_false]
        rw [rd_getD _ _ 6 (by omega), rd_getD _ _ 7 (by omega)]
        simp only [Outcome.bind_ok]
        rw [beVal_two f.body 6 (by omega)]
        by_cases he : be16 (f.body.getD 6 0) (f.body.getD 7 0) = 0x888E
        · simp only [he, ne_eq, not_true_eq_false, if_false, beq_self_eq_true, Bool.and_true]
          by_cases h107' : 107 ≤ f.body.length
          · have : ¬ (f.headerLen + f.body.length < f.headerLen + 107) := by omega
            simp [h107', this]
          · have : f.headerLen + f.body.length < f.headerLen + 107 := by omega
            simp [h107', this]
        · simp only [List.getD_eq_getElem?_getD] at he
          simp [he]
      · simp [ho]
  · have : (frameType f == 2) = false := by simpa using hd
    simp [hd, this]

/-- **C12 (message)** message number 1..4 exactly for key-information 0x008A, 0x010A, 0x13CA and
0x030A (as HANDSHAKE_M1..M4 = 1, 2, 4, 8), invalid (16) otherwise and for frames too short to hold
a descriptor -/
theorem C12_message (f : Frame) (hc : Coherent f) :
    checkMessage f = .ok (if f.body.length < 107 then 16 else
      match Spec.messageOf (Spec.beVal f.body 13 2) with
      | some 1 => 1 | some 2 => 2 | some 3 => 4 | some 4 => 8 | _ => 16) := by
  obtain ⟨h8, h107, _, _, m1, m2, m3, m4, _⟩ := C12_tables
  unfold checkMessage
  rw [h8, h107, hc]
  by_cases hl : f.body.length < 107
  · have : f.headerLen + f.body.length < f.headerLen + 107 := by omega
    simp [hl, this]
  · have : ¬ (f.headerLen + f.body.length < f.headerLen + 107) := by omega
    simp only [this, if_false, hl]
    rw [rd_getD _ _ 13 (by omega), rd_getD _ _ 14 (by omega)]
    simp only [Outcome.bind_ok]
    rw [beVal_two f.body 13 (by omega)]
    unfold msgOf Spec.messageOf
    rw [m1, m2, m3, m4]
    generalize be16 (f.body.getD 13 0) (f.body.getD 14 0) = k
    by_cases a : k = 0x008A
    · subst a; rfl
    · by_cases b : k = 0x010A
      · subst b; rfl
      · by_cases c : k = 0x13CA
        · subst c; rfl
        · by_cases d : k = 0x030A
          · subst d; rfl
          · simp [a, b, c, d]

theorem beNat_eq_beVal (bs : Bytes) (off n : Nat) : beNat ((bs.drop off).take n) = Spec.beVal bs off n := rfl

theorem beVal_one (bs : Bytes) (off : Nat) (h : off < bs.length) : Spec.beVal bs off 1 = (bs.getD off 0).toNat := by
  unfold Spec.beVal
  have h1 : (bs.drop off).take 1 = [bs.getD off 0] := by
    apply List.ext_getElem
    · simp only [List.length_take, List.length_drop, List.length_cons, List.length_nil]; omega
    · intro i h1 h2
      simp only [List.length_cons, List.length_nil] at h2
      have : i = 0 := by omega
      subst this
      simp [List.getD, List.getElem?_eq_getElem h]
  rw [h1]; simp [List.foldl]

/-- **C12 (extract)** for every recognised frame the extracted fields are the big-endian fields
at their standard offsets and the key data are exactly the octets that follow the descriptor,
limited to the declared length, the library's cap and the octets actually present -/
theorem C12_extract (f : Frame) (hc : Coherent f) (hr : Spec.isHandshake (frameType f == 2) f.body = true) :
    ∃ d, getWpaData f = .ok d ∧
      let k := Spec.keyFrame f.body
      d.version = k.version ∧ d.type = k.type ∧ d.length = k.length ∧ d.descriptor = k.descriptor ∧ d.information = k.information ∧
      d.keyLength = k.keyLength ∧ d.replay = k.replay ∧ d.nonce = k.nonce ∧ d.iv = k.iv ∧ d.rsc = k.rsc ∧ d.id = k.id ∧ d.mic = k.mic ∧
      d.keyData = k.keyData ∧ d.keyDataLength = d.keyData.length := by
  obtain ⟨h8, h107, _⟩ := C12_tables
  have hlen : 107 ≤ f.body.length := by
    unfold Spec.isHandshake Spec.eapolMinBody at hr
    simp only [Bool.and_eq_true, decide_eq_true_eq] at hr
    exact hr.1.1.2
  unfold getWpaData
  rw [C12_recognise f hc, hr]
  simp only [if_true, Outcome.bind_ok, Int.reduceLT, if_false]
  rw [h8, h107]
  have hav : f.len - f.headerLen - 107 = f.body.length - 107 := by rw [hc]; omega
  rw [rd_getD _ _ 8 (by omega), rd_getD _ _ (8 + 1) (by omega), rdSlice_ok _ _ (8 + 2) 2 (by omega), rd_getD _ _ (8 + 4) (by omega),
    rdSlice_ok _ _ (8 + 5) 2 (by omega), rdSlice_ok _ _ (8 + 7) 2 (by omega), rdSlice_ok _ _ (8 + 9) 8 (by omega),
    rdSlice_ok _ _ (8 + 17) 32 (by omega), rdSlice_ok _ _ (8 + 49) 16 (by omega), rdSlice_ok _ _ (8 + 65) 8 (by omega),
    rdSlice_ok _ _ (8 + 73) 8 (by omega), rdSlice_ok _ _ (8 + 81) 16 (by omega), rdSlice_ok _ _ (8 + 97) 2 (by omega)]
  simp only [Outcome.bind_ok, hav]
  have hkd : 107 + min (min (beNat ((f.body.drop (8 + 97)).take 2)) keyDataCap) (f.body.length - 107) ≤ f.body.length := by omega
  rw [rdSlice_ok _ _ 107 _ hkd]
  refine ⟨_, rfl, ?_⟩
  simp only [Spec.keyFrame, beNat_eq_beVal]
  have e : ∀ off n, Spec.beVal (f.body.drop 8) off n = Spec.beVal f.body (8 + off) n := by
    intro off n; simp [Spec.beVal, List.drop_drop]
  have e2 : ∀ off n, ((f.body.drop 8).drop off).take n = (f.body.drop (8 + off)).take n := by
    intro off n; simp [List.drop_drop]
  refine ⟨?_, ?_, (e _ _).symm, ?_, (e _ _).symm, (e _ _).symm, (e _ _).symm, ?_, ?_, ?_, ?_, ?_, ?_, ?_⟩
  · rw [e, beVal_one _ _ (by omega)]
  · rw [e, beVal_one _ _ (by omega)]
  · rw [e, beVal_one _ _ (by omega)]
  · rw [e2]
  · rw [e2]
  · rw [e2]
  · rw [e2]
  · rw [e2]
  · -- key data: min(declared, cap, present) octets after the descriptor
    rw [e]
    have hcap : keyDataCap = 1024 := rfl
    rw [hcap]
    generalize Spec.beVal f.body (8 + 97) 2 = declared
    apply List.ext_getElem
    · simp only [List.length_take, List.length_drop]; omega
    · intro i h1 h2
      simp [List.getElem_take]
  · simp only [List.length_take, List.length_drop]; omega

/-! non-vacuity -/
example : Spec.isHandshake true ([0xaa, 0xaa, 0x03, 0, 0, 0, 0x88, 0x8e] ++ List.replicate 99 0) = true := by decide +kernel

end LWV.Props.C12
