import LWV.Props.C15
/-
C14 — every object lifecycle releases exactly what it allocated.
-/
namespace LWV.Props.C14
open LWV LWV.Model LWV.Heap

/-- **C14 (tag histories)** for EVERY history of add / remove / set-SSID / set-channel / count
calls and EVERY fault schedule, once the documented release has been called no block allocated by
the library remains, nothing was released twice and nothing invalid was released -/
theorem C14_histories (σ : Nat → Bool) (ops : List TagOp) :
    let r := (do let th ← runHistory σ ops {}; free th.ptr : M Unit).run {}
    r.2.live = [] ∧ r.2.bad = 0 := LWV.Props.C15.C15_releasable σ ops

/-- while a history runs, the ledger holds exactly the list's one block (none when the list is
empty) — never a second copy, never a dangling one -/
theorem C14_exact_ownership (σ : Nat → Bool) (ops : List TagOp) :
    let r := (runHistory σ ops {}).run {}
    (∀ x, x ∈ r.2.live ↔ x ∈ blocks r.1.ptr) ∧ r.2.bad = 0 ∧ (r.1.t.length = 0 → r.1.ptr = none) := by
  have l0 : Ledger ({} : TagsH) ({} : H) [] := ⟨by simpa [blocks] using clean_init, by simp, ⟨fun _ => rfl, fun h => absurd rfl h⟩⟩
  have l1 := runHistory_ledger σ ops {} {} [] l0
  exact ⟨fun x => by simpa using l1.clean.mem x, l1.clean.bad, l1.owns.1⟩

/-- **C14 (zero-initialised)** releasing a zero-initialised object touches nothing -/
theorem C14_zero_init : ((free none : M Unit).run {}).2.live = [] ∧ ((free none : M Unit).run {}).2.bad = 0 ∧
    ((free none : M Unit).run {}).2.trace = [] := by
  exact ⟨rfl, rfl, rfl⟩

/-- one parser call followed by the documented release of its output: at most one block, released -/
theorem C14_parse_release (σ : Nat → Bool) (k : MKind) (f : Frame) (h : H) (own : List Nat) (c : Clean h own) :
    Clean ((parseReleaseH σ k f).run h).2 own := by
  unfold parseReleaseH
  cases parseAllocSize k f with
  | none => exact c
  | some n =>
    simp only
    rw [run_bind]
    rcases malloc_spec σ n h own c with ⟨hn, cn⟩ | ⟨id, hs, hid, cs⟩
    · simp only [hn]; exact cn
    · simp only [hs]
      rw [run_bind]
      exact free_spec (some id) _ own (by simpa [blocks] using cs) (fun i hi => by cases hi; exact hid)

end LWV.Props.C14
