import LWV.Lemmas.Crc
import LWV.Lemmas.Endian
/-
C11 — CRC-32 and frame-check-sequence verification are exact.
-/
namespace LWV.Props.C11
open LWV LWV.Model

/-- **C11 (crc)** the byte-wise C loop computes the IEEE 802.3 CRC-32 (bit-serial LFSR over the
message bits in transmission order) for every message -/
theorem C11_crc (m : Bytes) : Model.crc32 m = Spec.crc32 m := by
  unfold Model.crc32 Spec.crc32
  rw [foldl_crcByte]

/-- the standard check values -/
theorem C11_check_value :
    Model.crc32 [0x31, 0x32, 0x33, 0x34, 0x35, 0x36, 0x37, 0x38, 0x39] = 0xCBF43926#32 := by decide +kernel

theorem C11_check_empty : Model.crc32 [] = 0#32 := by decide +kernel
theorem C11_check_zero : Model.crc32 [0] = 0xD202EF8D#32 := by decide +kernel
theorem C11_check_a : Model.crc32 [0x61] = 0xE8B7BE43#32 := by decide +kernel

/-- **C11 (fcs)** the in-memory bytes of the FCS routine's value are the on-air FCS octets -/
theorem C11_fcs_bytes (m : Bytes) : leBytes 4 (calculateFcs m).toNat = Spec.fcsOctets m := by
  unfold calculateFcs Spec.fcsOctets
  rw [C11_crc]

/-- **C11 (verify)** for EVERY frame: the answer is yes exactly when the frame holds at least four
octets and the last four are the FCS of the octets before them; shorter frames are answered no
without any read -/
theorem C11_verify (f : Bytes) :
    frameVerify f = .ok (if 4 ≤ f.length ∧ f.drop (f.length - 4) = Spec.fcsOctets (f.take (f.length - 4)) then 1 else 0) := by
  unfold frameVerify
  by_cases h : f.length < 4
  · have : ¬ (4 ≤ f.length) := by omega
    simp [h, this]
  · have h4 : 4 ≤ f.length := by omega
    have hs : rdSlice "frame" f (f.length - 4) 4 = .ok (f.drop (f.length - 4)) := by
      unfold rdSlice
      have : f.length - 4 + 4 ≤ f.length := by omega
      simp only [this, if_true]
      congr 1
      apply List.take_of_length_le
      simp only [List.length_drop]; omega
    simp only [h, if_false, hs, Outcome.bind_ok, h4, true_and]
    have hl : (f.drop (f.length - 4)).length = 4 := by simp only [List.length_drop]; omega
    congr 1
    rw [← C11_fcs_bytes]
    by_cases heq : (calculateFcs (f.take (f.length - 4))).toNat = leNat (f.drop (f.length - 4))
    · have : f.drop (f.length - 4) = leBytes 4 (calculateFcs (f.take (f.length - 4))).toNat := by
        have hrt := leBytes_leNat (f.drop (f.length - 4))
        rw [hl] at hrt
        rw [heq, hrt]
      rw [if_pos heq, if_pos this]
    · have : ¬ f.drop (f.length - 4) = leBytes 4 (calculateFcs (f.take (f.length - 4))).toNat := by
        intro hc
        apply heq
        rw [hc, leNat_leBytes]
        have := (calculateFcs (f.take (f.length - 4))).isLt
        exact (Nat.mod_eq_of_lt (by simpa using this)).symm
      rw [if_neg heq, if_neg this]

/-! ### error detection -/

def xorBytes (m e : Bytes) : Bytes := List.zipWith (· ^^^ ·) m e

/-- an error pattern (as octets) all of whose set bits lie within 32 consecutive bit positions
of the transmitted bit stream, and which is not zero -/
def IsBurst32 (e : Bytes) : Prop := IsBurstBits (messageBits e)

theorem octetBits_xor (a b : UInt8) :
    octetBits (a ^^^ b) = List.zipWith (fun x y => x != y) (octetBits a) (octetBits b) := by
  simp only [octetBits, UInt8.toNat_xor, Nat.testBit_xor, List.zipWith_map, List.zipWith_self]

theorem octetBits_length (a : UInt8) : (octetBits a).length = 8 := by simp [octetBits]

theorem messageBits_xor (m e : Bytes) (h : m.length = e.length) :
    messageBits (xorBytes m e) = List.zipWith (fun x y => x != y) (messageBits m) (messageBits e) := by
  induction m generalizing e with
  | nil => cases e <;> simp [xorBytes, messageBits]
  | cons a m ih =>
    cases e with
    | nil => simp at h
    | cons b e =>
      have := ih e (by simpa using h)
      simp only [xorBytes, messageBits, List.zipWith_cons_cons, List.flatMap_cons] at this ⊢
      rw [this, octetBits_xor, List.zipWith_append (by simp [octetBits_length])]

theorem messageBits_length (m : Bytes) : (messageBits m).length = 8 * m.length := by
  induction m with
  | nil => rfl
  | cons a m ih => simp only [messageBits, List.flatMap_cons, List.length_append, octetBits_length, List.length_cons] at ih ⊢; omega

/-- **C11 (detects)** every non-zero error confined to at most 32 consecutive bits — in
particular every single-bit error — changes the checksum, for every message of every length -/
theorem C11_detects (m e : Bytes) (hl : e.length = m.length) (hb : IsBurst32 e) :
    Model.crc32 (xorBytes m e) ≠ Model.crc32 m := by
  unfold Model.crc32
  rw [foldl_crcByte, foldl_crcByte, messageBits_xor m e hl.symm]
  have hlen : (messageBits m).length = (messageBits e).length := by
    rw [messageBits_length, messageBits_length, hl]
  have hx := feedBits_xor 0xFFFFFFFF#32 0#32 (messageBits m) (messageBits e) hlen
  simp only [BitVec.xor_zero] at hx
  rw [hx]
  intro hc
  have hne := burst_nonzero _ hb
  apply hne
  have h2 := congrArg (fun z => ~~~ z) hc
  simp only [BitVec.not_not] at h2
  have h3 := congrArg (fun z => feedBits 0xFFFFFFFF#32 (messageBits m) ^^^ z) h2
  simp only [← BitVec.xor_assoc, BitVec.xor_self, BitVec.zero_xor] at h3
  exact h3

/-- a single flipped bit is a burst -/
theorem single_bit_is_burst (pre post : Nat) (k : Fin 8) :
    IsBurst32 (List.replicate pre 0 ++ [UInt8.ofNat (2 ^ k.val)] ++ List.replicate post 0) := by
  refine ⟨8 * pre, octetBits (UInt8.ofNat (2 ^ k.val)), 8 * post, ?_, by simp [octetBits_length], ?_⟩
  · have hz : ∀ n, messageBits (List.replicate n (0 : UInt8)) = List.replicate (8 * n) false := by
      intro n
      induction n with
      | zero => rfl
      | succ n ih =>
        simp only [List.replicate_succ, messageBits, List.flatMap_cons] at ih ⊢
        rw [ih]
        have : octetBits 0 = List.replicate 8 false := by decide
        rw [this, List.replicate_append_replicate]
        congr 1; omega
    simp only [messageBits, List.flatMap_append, List.flatMap_cons, List.flatMap_nil, List.append_nil] at hz ⊢
    rw [hz pre, hz post]
  · have : ∀ k : Fin 8, true ∈ octetBits (UInt8.ofNat (2 ^ k.val)) := by decide
    exact this k

end LWV.Props.C11
