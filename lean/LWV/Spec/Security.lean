import LWV.GenTypes
/-
Spec.Security — what the security summary *means*: which summary flag carries which displayed
name (transcribed by hand from the documentation in core/misc/security.h: the flag macros and
their suite names), and the declarative form of a description.
-/
namespace LWV.Spec
open LWV

/-- (summary flag macro, displayed name), in display order -/
def descGenerations : List (Name × Name) := [
  (n!"WPA3", n!"WPA3"), (n!"WPA2", n!"WPA2"), (n!"WPA", n!"WPA"), (n!"WEP", n!"WEP")]

def descGroup : List (Name × Name) := [
  (n!"LIBWIFI_GROUP_CIPHER_SUITE_WEP40", n!"WEP40"), (n!"LIBWIFI_GROUP_CIPHER_SUITE_TKIP", n!"TKIP"),
  (n!"LIBWIFI_GROUP_CIPHER_SUITE_RESERVED", n!"RESERVED"), (n!"LIBWIFI_GROUP_CIPHER_SUITE_CCMP128", n!"CCMP128"),
  (n!"LIBWIFI_GROUP_CIPHER_SUITE_WEP104", n!"WEP104"), (n!"LIBWIFI_GROUP_CIPHER_SUITE_BIP_CMAC128", n!"BIP_CMAC128"),
  (n!"LIBWIFI_GROUP_CIPHER_SUITE_NOTALLOWED", n!"NOT_ALLOWED"), (n!"LIBWIFI_GROUP_CIPHER_SUITE_GCMP128", n!"GCMP128"),
  (n!"LIBWIFI_GROUP_CIPHER_SUITE_GCMP256", n!"GCMP256"), (n!"LIBWIFI_GROUP_CIPHER_SUITE_CCMP256", n!"CCMP256"),
  (n!"LIBWIFI_GROUP_CIPHER_SUITE_BIP_GMAC128", n!"BIP_GMAC128"), (n!"LIBWIFI_GROUP_CIPHER_SUITE_BIP_GMAC256", n!"BIP_GMAC256"),
  (n!"LIBWIFI_GROUP_CIPHER_SUITE_BIP_CMAC256", n!"BIP_CMAC256")]

def descPairwise : List (Name × Name) := [
  (n!"LIBWIFI_PAIRWISE_SUITE_GROUP", n!"GROUP"), (n!"LIBWIFI_PAIRWISE_CIPHER_SUITE_WEP40", n!"WEP40"),
  (n!"LIBWIFI_PAIRWISE_CIPHER_SUITE_TKIP", n!"TKIP"), (n!"LIBWIFI_PAIRWISE_CIPHER_SUITE_RESERVED", n!"RESERVED"),
  (n!"LIBWIFI_PAIRWISE_CIPHER_SUITE_CCMP128", n!"CCMP128"), (n!"LIBWIFI_PAIRWISE_CIPHER_SUITE_WEP104", n!"WEP104"),
  (n!"LIBWIFI_PAIRWISE_CIPHER_SUITE_BIP_CMAC128", n!"BIP_CMAC128"), (n!"LIBWIFI_PAIRWISE_CIPHER_SUITE_NOTALLOWED", n!"NOT_ALLOWED"),
  (n!"LIBWIFI_PAIRWISE_CIPHER_SUITE_GCMP128", n!"GCMP128"), (n!"LIBWIFI_PAIRWISE_CIPHER_SUITE_GCMP256", n!"GCMP256"),
  (n!"LIBWIFI_PAIRWISE_CIPHER_SUITE_CCMP256", n!"CCMP256"), (n!"LIBWIFI_PAIRWISE_CIPHER_SUITE_BIP_GMAC128", n!"BIP_GMAC128"),
  (n!"LIBWIFI_PAIRWISE_CIPHER_SUITE_BIP_GMAC256", n!"BIP_GMAC256"), (n!"LIBWIFI_PAIRWISE_CIPHER_SUITE_BIP_CMAC256", n!"BIP_CMAC256")]

def descAkm : List (Name × Name) := [
  (n!"LIBWIFI_AKM_SUITE_RESERVED", n!"RESERVED"), (n!"LIBWIFI_AKM_SUITE_1X", n!"802.1X"), (n!"LIBWIFI_AKM_SUITE_PSK", n!"PSK"),
  (n!"LIBWIFI_AKM_SUITE_1X_FT", n!"802.1X_FT"), (n!"LIBWIFI_AKM_SUITE_PSK_FT", n!"PSK_FT"),
  (n!"LIBWIFI_AKM_SUITE_1X_SHA256", n!"802.1X_SHA256"), (n!"LIBWIFI_AKM_SUITE_PSK_SHA256", n!"PSK_SHA256"),
  (n!"LIBWIFI_AKM_SUITE_TDLS", n!"TDLS"), (n!"LIBWIFI_AKM_SUITE_SAE", n!"SAE"), (n!"LIBWIFI_AKM_SUITE_SAE_FT", n!"SAE_FT"),
  (n!"LIBWIFI_AKM_SUITE_AP_PEER", n!"AP_PEER"), (n!"LIBWIFI_AKM_SUITE_1X_SUITEB_SHA256", n!"802.1X_SUITEB_SHA256"),
  (n!"LIBWIFI_AKM_SUITE_1X_SUITEB_SHA384", n!"802.1X_SUITEB_SHA384"), (n!"LIBWIFI_AKM_SUITE_1X_FT_SHA384", n!"802.1X_FT_SHA384"),
  (n!"LIBWIFI_AKM_SUITE_FILS_SHA256", n!"FILS_SHA256"), (n!"LIBWIFI_AKM_SUITE_FILS_SHA384", n!"FILS_SHA384"),
  (n!"LIBWIFI_AKM_SUITE_FILS_SHA256_FT", n!"FILS_SHA256_FT"), (n!"LIBWIFI_AKM_SUITE_FILS_SHA384_FT", n!"FILS_SHA384_FT"),
  (n!"LIBWIFI_AKM_SUITE_OWE", n!"OWE"), (n!"LIBWIFI_AKM_PSK_SHA384_FT", n!"PSK_SHA384_FT"), (n!"LIBWIFI_AKM_PSK_SHA384", n!"PSK_SHA384")]

/-- comma-separated join of byte strings -/
def joinComma : List (List Nat) → List Nat
  | [] => []
  | [x] => x
  | x :: y :: t => x ++ [44, 32] ++ joinComma (y :: t)

/-- the declarative description: "None" for the empty summary, otherwise the names of the set
flags, each once, comma-separated, in table order -/
def descText (table : List (Nat × Name)) (none : Name) (v : Nat) : List Nat :=
  if v = 0 then Name.bytes none
  else joinComma ((table.filter (fun e => v.testBit e.1)).map (fun e => Name.bytes e.2))

end LWV.Spec
