import LWV.Spec.Tlv
import LWV.Spec.TagsRef
/-
Spec.Mgmt — what the management parsers must report (C04) and what the security summary must
contain (C08), written declaratively over the element list of the frame.
Selector → flag assignments are transcribed by hand from core/misc/security.h.
-/
namespace LWV.Spec
open LWV

def ieeeOui : Bytes := [0x00, 0x0F, 0xAC]
def msOui : Bytes := [0x00, 0x50, 0xF2]

structure SuiteSel where
  oui : Bytes
  ty : Nat
  deriving Repr, DecidableEq

/-- RSN group cipher selector → summary bit -/
def rsnGroupBit : List (Nat × Nat) :=
  [(1, 5), (2, 6), (3, 7), (4, 8), (5, 9), (6, 10), (7, 11), (8, 12), (9, 13), (10, 14), (11, 15), (12, 16), (13, 17)]
/-- RSN pairwise cipher selector → summary bit (WEP-40/104 are not pairwise ciphers of an RSN) -/
def rsnPairwiseBit : List (Nat × Nat) :=
  [(0, 18), (2, 20), (3, 21), (4, 22), (6, 24), (7, 25), (8, 26), (9, 27), (10, 28), (11, 29), (12, 30), (13, 31)]
/-- AKM selector → summary bit -/
def akmBit : List (Nat × Nat) :=
  [(0, 32), (1, 33), (2, 34), (3, 35), (4, 36), (5, 37), (6, 39), (7, 40), (8, 41), (9, 42), (10, 43), (11, 44), (12, 45),
   (13, 46), (14, 47), (15, 48), (16, 49), (17, 50), (18, 51), (19, 52), (20, 53)]
/-- generation documented for an RSN AKM selector: bit 3 = WPA2 (selectors 0..7), bit 4 = WPA3 (8..20) -/
def rsnGeneration (sel : Nat) : Nat := if sel ≤ 7 then 3 else 4
def wpaMulticastBit : List (Nat × Nat) := [(1, 5), (2, 6), (3, 7), (5, 9)]
def wpaUnicastBit : List (Nat × Nat) := [(0, 18), (1, 19), (2, 20), (3, 21), (5, 23)]
def wpaAkmSel : List Nat := [0, 1, 2, 3, 4]

def bit (b : Nat) : Nat := 2 ^ b
def lookupBit (t : List (Nat × Nat)) (sel : Nat) : Nat := match t.lookup sel with | some b => bit b | none => 0

structure RsnDecoded where
  version : Nat
  group : SuiteSel
  pairwise : List SuiteSel      -- the stored ones: at most six
  akms : List SuiteSel
  caps : Nat
  deriving Repr, DecidableEq

structure WpaDecoded where
  version : Nat
  multicast : SuiteSel
  unicast : List SuiteSel
  akms : List SuiteSel
  deriving Repr, DecidableEq

def u16le (bs : Bytes) (i : Nat) : Nat := (bs.getD i 0).toNat + 256 * (bs.getD (i + 1) 0).toNat

def suiteAtS (bs : Bytes) (i : Nat) : SuiteSel := ⟨(bs.drop i).take 3, (bs.getD (i + 3) 0).toNat⟩

def suitesS (bs : Bytes) (i n : Nat) : List SuiteSel := (List.range n).map (fun k => suiteAtS bs (i + 4 * k))

/-- RSN element body: version(2) group(4) pcount(2) p×4 acount(2) a×4 capabilities(2); `none` iff
the element is too short for its own counts (capabilities required) -/
def rsnDecode (el : Bytes) : Option RsnDecoded :=
  if el.length < 8 then none
  else
    let pc := u16le el 6
    if el.length < 8 + 4 * pc + 2 then none
    else
      let ao := 8 + 4 * pc
      let ac := u16le el ao
      if el.length < ao + 2 + 4 * ac + 2 then none
      else some { version := u16le el 0, group := suiteAtS el 2, pairwise := suitesS el 8 (min pc 6),
                  akms := suitesS el (ao + 2) (min ac 6), caps := u16le el (ao + 2 + 4 * ac) }

/-- WPA element body after OUI+type: the same without capabilities -/
def wpaDecode (el : Bytes) : Option WpaDecoded :=
  if el.length < 8 then none
  else
    let pc := u16le el 6
    if el.length < 8 + 4 * pc + 2 then none
    else
      let ao := 8 + 4 * pc
      let ac := u16le el ao
      if el.length < ao + 2 + 4 * ac then none
      else some { version := u16le el 0, multicast := suiteAtS el 2, unicast := suitesS el 8 (min pc 6), akms := suitesS el (ao + 2) (min ac 6) }

def orAll (l : List Nat) : Nat := l.foldl (· ||| ·) 0

/-- summary flags an RSN element contributes: suites listed under the IEEE OUI only -/
def rsnFlags (r : RsnDecoded) : Nat :=
  (if r.group.oui = ieeeOui then lookupBit rsnGroupBit r.group.ty else 0) |||
  orAll (r.pairwise.map fun s => if s.oui = ieeeOui then lookupBit rsnPairwiseBit s.ty else 0) |||
  orAll (r.akms.map fun s => if s.oui = ieeeOui then (match akmBit.lookup s.ty with | some b => bit b ||| bit (rsnGeneration s.ty) | none => 0) else 0)

/-- summary flags a WPA element contributes (besides the WPA generation bit itself) -/
def wpaFlags (w : WpaDecoded) : Nat :=
  (if w.multicast.oui = msOui then lookupBit wpaMulticastBit w.multicast.ty else 0) |||
  orAll (w.unicast.map fun s => if s.oui = msOui then lookupBit wpaUnicastBit s.ty else 0) |||
  orAll (w.akms.map fun s => if s.oui = msOui ∧ s.ty ∈ wpaAkmSel then (match akmBit.lookup s.ty with | some b => bit b ||| bit 2 | none => 0) else 0)

structure BssReport where
  ssid : Bytes          -- 33 octets
  hidden : Nat
  channel : Nat
  wps : Nat
  enc : Nat
  rsn : Option RsnDecoded
  wpa : Option WpaDecoded
  deriving Repr, DecidableEq

def overlay (old new : Bytes) : Bytes := new.take 32 ++ old.drop (min new.length 32)

/-- fold the elements of a BSS frame; `none` = the parse must fail (an RSN / WPA element too short for its counts) -/
def bssReport (privacy : Bool) (es : List Elem) : Option BssReport :=
  es.foldl (fun acc e => acc.bind fun (r : BssReport) =>
    match e.num.toNat with
    | 0 => some { r with ssid := overlay r.ssid e.body, hidden := if e.body.isEmpty ∨ (e.body.take 32).all (· == 0) then 1 else 0 }
    | 3 | 61 => some (if e.body.isEmpty then r else { r with channel := (e.body.getD 0 0).toNat })
    | 48 =>
      (rsnDecode e.body).map fun d => { r with enc := (if r.enc = 2 then 0 else r.enc) ||| rsnFlags d, rsn := some d }
    | 221 =>
      if e.body.length ≥ 4 ∧ e.body.take 3 = msOui then
        match (e.body.getD 3 0).toNat with
        | 1 => (wpaDecode (e.body.drop 4)).map fun d => { r with enc := ((if r.enc = 2 then 0 else r.enc) ||| 4) ||| wpaFlags d, wpa := some d }
        | 4 => some { r with wps := 1 }
        | _ => some r
      else some r
    | _ => some r)
    (some { ssid := List.replicate 33 0, hidden := 0, channel := 0, wps := 0, enc := if privacy then 2 else 0, rsn := none, wpa := none })

structure StaReport where
  ssid : Bytes
  channel : Nat
  deriving Repr, DecidableEq

def staReport (es : List Elem) : StaReport :=
  es.foldl (fun r e =>
    match e.num.toNat with
    | 0 => { r with ssid := overlay r.ssid e.body }
    | 3 => if e.body.isEmpty then r else { r with channel := (e.body.getD 0 0).toNat }
    | _ => r) { ssid := List.replicate 33 0, channel := 0 }

/-- the tagged-parameter region the parsers accept as well formed -/
def wellFormedTags (tags : Bytes) : Bool := decide (tags.length ≥ 2) && wf tags && noInnerEmpty (parse tags)

end LWV.Spec
