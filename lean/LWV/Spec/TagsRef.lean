import LWV.Spec.Tlv
/-
Spec.TagsRef — what an edit of a tagged-parameter list must do, as a relation between the
stored bytes before and after the call (C05).  The reference is the plain list of elements.
-/
namespace LWV.Spec
open LWV

/-- no element other than the first is empty (the iterator's documented limit) -/
def noInnerEmpty : List Elem → Bool
  | [] => true
  | _ :: t => t.all (fun e => !e.body.isEmpty)

def wf (bs : Bytes) : Bool := encode (parse bs) == bs

inductive EditOp where
  | add (num : Nat) (data : Bytes)
  | remove (num : Nat)
  | set (num : Nat) (data : Bytes)
  | check (num : Nat)
  deriving Repr

/-- the relation: stored bytes before, operation, (return value, stored bytes after).
Returns the name of the violated clause, or none. -/
def editHolds (before : Bytes) (op : EditOp) (ret : Int) (after : Bytes) : Option String :=
  if !wf before then none          -- nothing is promised about a list that was not well formed
  else if !wf after then some "after the call the bytes are not a well-formed element sequence"
  else
    let es := parse before
    match op with
    | .add n d =>
      if n < 256 ∧ d.length ≤ 255 then
        if ret ≠ 0 then some "add of a storable element did not report success"
        else if after == before ++ encodeElem ⟨UInt8.ofNat n, d⟩ then none
        else some "add did not append exactly the one element"
      else none
    | .remove n =>
      if noInnerEmpty es then
        if parse after == es.eraseP (fun e => e.num.toNat == n) then none
        else some "remove did not delete exactly the first element with that number"
      else none
    | .set n d =>
      if noInnerEmpty es ∧ n < 256 ∧ d.length ≤ 255 then
        if parse after == es.eraseP (fun e => e.num.toNat == n) ++ [⟨UInt8.ofNat n, d⟩] then none
        else some "set did not replace the element keeping all others in order"
      else none
    | .check n =>
      if after != before then some "check modified the list"
      else if noInnerEmpty es then
        if ret == (es.countP (fun e => e.num.toNat == n) : Nat) then none
        else some "occurrence count disagrees with the list"
      else none

/-- the same relation when allocations may fail: a call that reports failure must leave the list
unchanged; a call that reports success must have had its full effect -/
def editHoldsF (before : Bytes) (op : EditOp) (ret : Int) (after : Bytes) : Option String :=
  if !wf before then none
  else if !wf after then some "after the call the bytes are not a well-formed element sequence"
  else
    match op with
    | .add _ _ => if ret ≠ 0 then (if after == before then none else some "a failed add changed the list") else editHolds before op ret after
    | .set _ _ => if ret ≠ 0 then (if after == before then none else some "a failed set lost previously stored data") else editHolds before op ret after
    | _ => editHolds before op ret after

end LWV.Spec
