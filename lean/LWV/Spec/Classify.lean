import LWV.Basic
/-
Spec.Classify — what frame classification must report, from IEEE 802.11 clause 9.2/9.3: frame
control = protocol version (2 bits), type (2 bits), subtype (4 bits), then eight flag bits of which
the last is +HTC/Order.
-/
namespace LWV.Spec
open LWV

/-- data subtypes with a QoS Control field: bit 3 of the subtype set, 13 is reserved -/
def qosSubtypes : List Nat := [8, 9, 10, 11, 12, 14, 15]

/-- MAC header length implied by type, subtype and order bit; `none` for the extension type -/
def hdrLen (ty st : Nat) (order : Bool) : Option Nat :=
  match ty with
  | 0 => some (if order then 28 else 24)
  | 1 => some 4
  | 2 => some (if st ∈ qosSubtypes then 26 else 24)
  | _ => none

structure Slices where
  fcs : Bool
  qos : Bool
  ordered : Bool
  len : Nat
  headerLen : Nat
  fc : Bytes
  header : Bytes
  body : Bytes
  deriving Repr, DecidableEq

/-- classification of the octets that remain after `skip` octets of (valid) radiotap header; `fcs`:
the radiotap flags announce a trailing FCS -/
def classifyCore (bs : Bytes) (skip : Nat) (fcs : Bool) : Option Slices :=
  let rest := bs.drop skip
  if fcs ∧ rest.length < 4 then none
  else
    let frame := if fcs then rest.take (rest.length - 4) else rest
    match frame with
    | b0 :: b1 :: _ =>
      let ty := (b0.toNat / 4) % 4
      let st := b0.toNat / 16
      let order := b1.toNat ≥ 128
      match hdrLen ty st order with
      | none => none
      | some h =>
        if frame.length < h then none
        else some { fcs := fcs, qos := ty = 2 ∧ st ∈ qosSubtypes, ordered := ty = 0 ∧ order, len := frame.length, headerLen := h,
                    fc := [b0, b1], header := frame.take h, body := frame.drop h }
    | _ => none

end LWV.Spec
