import LWV.Basic
/-
Spec.Radiotap — the radiotap placement rule (radiotap.org), written independently of the
vendored iterator: present words are chained by bit 31; bits 0..28 of a word name fields of the
namespace selected by bits 29/30 of the *previous* word (first word: the radiotap namespace, field
numbers restart at 0 after a namespace switch); every defined field sits at the next multiple of
its alignment counted from the start of the header and occupies its size; a vendor namespace
contributes a 6-octet descriptor at alignment 2 followed by `skip_length` octets; the first
undefined field ends decoding.
-/
namespace LWV.Spec
open LWV

/-- (field number, alignment, size) as assigned by the radiotap specification, for the fields
the library defines -/
def rtTable : List (Nat × Nat × Nat) := [
  (0, 8, 8), (1, 1, 1), (2, 1, 1), (3, 2, 4), (4, 2, 2), (5, 1, 1), (6, 1, 1), (7, 2, 2), (8, 2, 2), (9, 2, 2),
  (10, 1, 1), (11, 1, 1), (12, 1, 1), (13, 1, 1), (14, 2, 2), (15, 2, 2), (16, 1, 1), (17, 1, 1),
  (19, 1, 3), (20, 4, 8), (21, 2, 12), (22, 8, 12)]

def alignUp (off a : Nat) : Nat := (off + a - 1) / a * a

/-- a decoded field: number and offset from the header start -/
structure RtField where
  field : Nat
  off : Nat
  deriving Repr, DecidableEq

def u8 (bs : Bytes) (i : Nat) : Nat := (bs.getD i 0).toNat
def u16 (bs : Bytes) (i : Nat) : Nat := u8 bs i + 256 * u8 bs (i + 1)
def u32 (bs : Bytes) (i : Nat) : Nat := u16 bs i + 65536 * u16 bs (i + 2)
def u64 (bs : Bytes) (i : Nat) : Nat := u32 bs i + 4294967296 * u32 bs (i + 4)

/-- the chain of present words (offsets 4, 8, …) — `none` if the chain leaves the header -/
def presentWords (bs : Bytes) (itLen : Nat) : Nat → Nat → Option (List Nat)
  | 0, _ => none
  | fuel + 1, off =>
    if off + 4 > itLen then none
    else
      let w := u32 bs off
      if w.testBit 31 then (presentWords bs itLen fuel (off + 4)).map (w :: ·) else some [w]

inductive Ns | radiotap | vendor
  deriving DecidableEq, Repr

structure Walk where
  off : Nat
  ns : Ns
  base : Nat := 0        -- number of the field that bit 0 of the current word stands for
  fields : List RtField
  stopped : Bool         -- an undefined field was met: nothing further is decoded
  bad : Bool             -- a field runs past it_len: the header is malformed from here on
  deriving Repr

/-- place the fields named by bits `bit, bit+1, …` (`n` of them) of present word `w` -/
def placeBits (itLen w : Nat) : Nat → Nat → Walk → Walk
  | 0, _, st => st
  | n + 1, bit, st =>
    if st.stopped || st.bad then st
    else if w.testBit bit then
      match st.ns with
      | .vendor => placeBits itLen w n (bit + 1) st          -- described by the vendor's skip length
      | .radiotap =>
        match rtTable.find? (fun e => e.1 == st.base + bit) with
        | none => { st with stopped := true }
        | some (_, a, sz) =>
          let off := alignUp st.off a
          if off + sz > itLen then { st with bad := true }
          else placeBits itLen w n (bit + 1) { st with off := off + sz, fields := st.fields ++ [⟨st.base + bit, off⟩] }
    else placeBits itLen w n (bit + 1) st

/-- place the fields of one present word (bits 0..28), then select the namespace for the next word -/
def walkWord (bs : Bytes) (itLen : Nat) (w : Nat) (st : Walk) : Walk :=
  let st := placeBits itLen w 29 0 st
  if st.stopped || st.bad then st
  else
    let st := if w.testBit 29 then { st with ns := .radiotap } else st
    if w.testBit 30 then
      let off := alignUp st.off 2
      if off + 6 > itLen then { st with bad := true }
      else
        let skip := u16 bs (off + 4)
        if off + 6 + skip > itLen then { st with bad := true }
        else { st with off := off + 6 + skip, ns := .vendor, base := 0 }
    -- field numbering restarts after a namespace switch, otherwise the next word continues it
    else { st with base := if w.testBit 29 then 0 else st.base + 32 }

/-- all decoded fields of a header, or `none` when the header must be refused -/
def rtFields (bs : Bytes) : Option (Nat × List RtField) :=
  if bs.length < 8 then none
  else
    let itLen := u16 bs 2
    if u8 bs 0 ≠ 0 ∨ itLen < 8 ∨ itLen > bs.length ∨ itLen > 255 then none
    else match presentWords bs itLen 64 4 with
      | none => none
      | some ws =>
        let st := ws.foldl (fun st w => walkWord bs itLen w st) ⟨4 + 4 * ws.length, .radiotap, 0, [], false, false⟩
        some (itLen, st.fields)

/-- band bit and channel number of a centre frequency in MHz -/
def channelOf (freq : Nat) : Nat × Nat :=
  if 2412 ≤ freq ∧ freq ≤ 2472 then (1, (freq - 2407) / 5)
  else if 2473 ≤ freq ∧ freq ≤ 2483 then (1, (freq - 2407) / 5)
  else if freq = 2484 then (1, 14)
  else if 5160 ≤ freq ∧ freq ≤ 5885 then (2, (freq - 5000) / 5)
  else if 5955 ≤ freq ∧ freq ≤ 7115 then (4, (freq - 5950) / 5)
  else (0, 0)

end LWV.Spec

namespace LWV.Spec
open LWV

/-- values a decoder must report for a list of placed fields (first antenna-signal field is the
frame's signal, later ones open per-antenna entries which a following antenna field numbers) -/
structure RtValues where
  length : Nat := 0
  chanFreq : Nat := 0
  chanFlags : Nat := 0
  chanCenter : Nat := 0
  chanBand : Nat := 0
  rateRaw : Nat := 0
  signal : Nat := 0
  antennas : List (Nat × Nat) := []
  flags : Nat := 0
  rxFlags : Nat := 0
  txFlags : Nat := 0
  mcs : Nat × Nat × Nat := (0, 0, 0)
  txPower : Nat := 0
  ts : Nat × Nat × Nat × Nat := (0, 0, 0, 0)
  rtsRetries : Nat := 0
  dataRetries : Nat := 0
  deriving Repr, DecidableEq

/-- effect of one placed field on the reported values; the Boolean records that the frame's own
signal has been seen -/
def valueStep (bs : Bytes) (maxAnt : Nat) (acc : RtValues × Bool) (f : RtField) : RtValues × Bool :=
  let v := acc.1
  let o := f.off
  match f.field with
  | 1 => ({ v with flags := u8 bs o }, acc.2)
  | 2 => ({ v with rateRaw := u8 bs o }, acc.2)
  | 3 =>
    let fr := u16 bs o
    let bc := channelOf fr
    ({ v with chanFreq := fr, chanFlags := u16 bs (o + 2), chanBand := v.chanBand ||| bc.1,
              chanCenter := if bc.1 = 0 then v.chanCenter else bc.2 % 256 }, acc.2)
  | 5 =>
    if !acc.2 then ({ v with signal := u8 bs o }, true)
    else if v.antennas.length < maxAnt then ({ v with antennas := v.antennas ++ [(v.antennas.length, u8 bs o)] }, acc.2)
    else acc
  | 10 => ({ v with txPower := u8 bs o }, acc.2)
  | 11 =>
    match v.antennas.getLast? with
    | some (_, s) => ({ v with antennas := v.antennas.dropLast ++ [(u8 bs o, s)] }, acc.2)
    | none => acc
  | 14 => ({ v with rxFlags := u16 bs o }, acc.2)
  | 15 => ({ v with txFlags := u16 bs o }, acc.2)
  | 16 => ({ v with rtsRetries := u8 bs o }, acc.2)
  | 17 => ({ v with dataRetries := u8 bs o }, acc.2)
  | 19 => ({ v with mcs := (u8 bs o, u8 bs (o + 1), u8 bs (o + 2)) }, acc.2)
  | 22 => ({ v with ts := (u64 bs o, u16 bs (o + 8), u8 bs (o + 10), u8 bs (o + 11)) }, acc.2)
  | _ => acc

def rtValues (bs : Bytes) (itLen : Nat) (fields : List RtField) (maxAnt : Nat) : RtValues :=
  (fields.foldl (valueStep bs maxAnt) ({ length := itLen }, false)).1

end LWV.Spec

namespace LWV.Spec
open LWV

/-- the fields a radiotap description can carry, with the little-endian encoding of their value -/
structure RtDesc where
  present : Nat
  /-- value bytes per carried field number (already of the field's size) -/
  value : Nat → Bytes

def carried : List Nat := [1, 2, 3, 5, 10, 14, 15, 16, 17, 19, 22]

def carriedMask : Nat := carried.foldl (fun m b => m ||| (1 <<< b)) 0

/-- the valid header for a description: version 0, pad 0, total length, present word, then each
selected field at the next multiple of its alignment (from the header start) in bit order -/
def rtEncode (d : RtDesc) : Bytes :=
  let body := rtTable.foldl (fun (acc : Bytes) e =>
      if d.present.testBit e.1 then
        let off := alignUp (8 + acc.length) e.2.1
        acc ++ List.replicate (off - (8 + acc.length)) 0 ++ d.value e.1
      else acc) []
  [0, 0] ++ leBytes 2 (8 + body.length) ++ leBytes 4 d.present ++ body

end LWV.Spec
