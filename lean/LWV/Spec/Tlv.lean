import LWV.Basic
/-
Spec.Tlv — the element (tagged parameter) grammar: a sequence of (number, length, body) triples,
each body exactly `length` octets.  `parse` is the greedy parse of *complete* elements from the
start of a buffer; `encode` its inverse.
-/
namespace LWV.Spec

structure Elem where
  num : UInt8
  body : Bytes
  deriving Repr, DecidableEq

/-- element together with its offset in the buffer it was parsed from -/
structure ElemAt where
  off : Nat
  num : UInt8
  len : Nat
  deriving Repr, DecidableEq

def encodeElem (e : Elem) : Bytes := e.num :: UInt8.ofNat e.body.length :: e.body

def encode (es : List Elem) : Bytes := es.flatMap encodeElem

/-- greedy parse of complete elements (fuel = an upper bound on the number of elements) -/
def parseF : Nat → Bytes → List Elem
  | 0, _ => []
  | fuel + 1, n :: l :: rest =>
    if l.toNat ≤ rest.length then ⟨n, rest.take l.toNat⟩ :: parseF fuel (rest.drop l.toNat) else []
  | _ + 1, _ => []

def parse (bs : Bytes) : List Elem := parseF bs.length bs

/-- the same parse, reporting offsets relative to a base offset -/
def parseAtF : Nat → Nat → Bytes → List ElemAt
  | 0, _, _ => []
  | fuel + 1, base, n :: l :: rest =>
    if l.toNat ≤ rest.length then ⟨base, n, l.toNat⟩ :: parseAtF fuel (base + 2 + l.toNat) (rest.drop l.toNat) else []
  | _ + 1, _, _ => []

def parseAt (bs : Bytes) : List ElemAt := parseAtF bs.length 0 bs

/-- the buffer is exactly a sequence of complete elements -/
def wellFormed (bs : Bytes) : Prop := encode (parse bs) = bs

/-- what a caller of the iterator is entitled to see: the first element, then every following
element up to (excluding) the first *empty* one — the documented limit of the iterator -/
def visible : List ElemAt → List ElemAt
  | [] => []
  | e :: t => e :: t.takeWhile (fun x => x.len ≠ 0)

/-- the first element fits in the buffer -/
def firstFits (bs : Bytes) : Prop :=
  match bs with
  | _ :: l :: rest => l.toNat ≤ rest.length
  | _ => False

instance (bs : Bytes) : Decidable (firstFits bs) := by
  unfold firstFits; split <;> infer_instance

end LWV.Spec
