import LWV.Basic
/-
Spec.Eapol — EAPOL-Key frames per IEEE 802.11 12.7.2 / IEEE 802.1X: LLC/SNAP header AA AA 03,
OUI 00 00 00, EtherType 88 8E; then the 802.1X header (version, type, body length) and the
EAPOL-Key descriptor with big-endian multi-octet fields.
-/
namespace LWV.Spec
open LWV

def beVal (bs : Bytes) (off n : Nat) : Nat := ((bs.drop off).take n).foldl (fun a b => a * 256 + b.toNat) 0

/-- a complete descriptor needs 8 (LLC/SNAP) + 99 octets of body -/
def eapolMinBody : Nat := 107

/-- is the data-frame body an EAPOL-Key frame -/
def isHandshake (isData : Bool) (body : Bytes) : Bool :=
  isData && decide (eapolMinBody ≤ body.length) && ((body.drop 3).take 3 == [0, 0, 0]) && (beVal body 6 2 == 0x888E)

/-- message number for a key-information value: 1..4, or `none` (invalid) -/
def messageOf (keyInfo : Nat) : Option Nat :=
  if keyInfo = 0x008A then some 1 else if keyInfo = 0x010A then some 2 else if keyInfo = 0x13CA then some 3
  else if keyInfo = 0x030A then some 4 else none

structure KeyFrame where
  version : Nat
  type : Nat
  length : Nat
  descriptor : Nat
  information : Nat
  keyLength : Nat
  replay : Nat
  nonce : Bytes
  iv : Bytes
  rsc : Bytes
  id : Bytes
  mic : Bytes
  keyData : Bytes
  deriving Repr, DecidableEq

/-- the fields at their standard offsets (counted from the start of the 802.1X header, i.e.
body offset 8) and the key data: what follows the descriptor, limited to the declared length,
the library's cap (1024) and the octets present -/
def keyFrame (body : Bytes) : KeyFrame :=
  let e := body.drop 8
  let declared := beVal e 97 2
  { version := beVal e 0 1, type := beVal e 1 1, length := beVal e 2 2, descriptor := beVal e 4 1, information := beVal e 5 2,
    keyLength := beVal e 7 2, replay := beVal e 9 8, nonce := (e.drop 17).take 32, iv := (e.drop 49).take 16, rsc := (e.drop 65).take 8,
    id := (e.drop 73).take 8, mic := (e.drop 81).take 16,
    keyData := (body.drop 107).take (min declared 1024) }

end LWV.Spec
