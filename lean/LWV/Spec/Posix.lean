import LWV.GenTypes
/-
Functions of the C library that work on state shared by all threads of the process.

Source: POSIX.1-2017 (IEEE Std 1003.1), System Interfaces, section 2.9.1 "Thread-Safety": the list of functions
that "need not be thread-safe", plus the seeding / state-switching companions of the listed generators (they write
the same hidden state) and `setlocale` (listed there since Issue 7 TC2).  A library that calls one of them reads
and writes storage shared with every other thread, whatever its own object files contain.
Transcribed by hand; the re-entrant `_r` variants and the functions that take their state as a parameter
(`erand48`, `nrand48`, `jrand48`, `rand_r`, `strtok_r`, `localtime_r`, ...) are deliberately absent.
-/
namespace LWV.Spec
open LWV

def sharedStateLibc : List Name := [
  n!"asctime", n!"basename", n!"catgets", n!"crypt", n!"ctime", n!"dbm_clearerr", n!"dbm_close", n!"dbm_delete",
  n!"dbm_error", n!"dbm_fetch", n!"dbm_firstkey", n!"dbm_nextkey", n!"dbm_open", n!"dbm_store", n!"dirname",
  n!"dlerror", n!"drand48", n!"encrypt", n!"endgrent", n!"endpwent", n!"endutxent", n!"ftw", n!"getc_unlocked",
  n!"getchar_unlocked", n!"getdate", n!"getenv", n!"getgrent", n!"getgrgid", n!"getgrnam", n!"gethostent",
  n!"getlogin", n!"getnetbyaddr", n!"getnetbyname", n!"getnetent", n!"getopt", n!"getprotobyname",
  n!"getprotobynumber", n!"getprotoent", n!"getpwent", n!"getpwnam", n!"getpwuid", n!"getservbyname",
  n!"getservbyport", n!"getservent", n!"getutxent", n!"getutxid", n!"getutxline", n!"gmtime", n!"hcreate",
  n!"hdestroy", n!"hsearch", n!"inet_ntoa", n!"l64a", n!"lgamma", n!"lgammaf", n!"lgammal", n!"localeconv",
  n!"localtime", n!"lrand48", n!"mrand48", n!"nftw", n!"nl_langinfo", n!"ptsname", n!"putc_unlocked",
  n!"putchar_unlocked", n!"putenv", n!"pututxline", n!"rand", n!"readdir", n!"setenv", n!"setgrent", n!"setkey",
  n!"setlocale", n!"setpwent", n!"setutxent", n!"strerror", n!"strsignal", n!"strtok", n!"system", n!"ttyname",
  n!"unsetenv", n!"wcstombs", n!"wctomb",
  -- companions writing the same hidden generator state
  n!"srand", n!"random", n!"srandom", n!"initstate", n!"setstate", n!"srand48", n!"seed48", n!"lcong48",
  n!"tmpnam", n!"gethostbyname", n!"gethostbyaddr"]

end LWV.Spec
