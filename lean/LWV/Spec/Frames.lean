import LWV.Spec.Tlv
import LWV.Spec.TagsRef
/-
Spec.Frames — the 802.11 encoding a generated frame must have, from the standard's numbers and
the library's documented defaults (gen/management/common.h): written with literals, independent
of the regenerated tables.
-/
namespace LWV.Spec
open LWV

inductive Kind
  | beacon | probeReq | probeResp | assocReq | assocResp | reassocReq | reassocResp | auth | deauth | disassoc
  | action | actionNoAck | timingAd | atim | rts | cts
  deriving DecidableEq, Repr

/-- IEEE 802.11 Table 9-1: (type, subtype) -/
def Kind.typeSubtype : Kind → Nat × Nat
  | .assocReq => (0, 0) | .assocResp => (0, 1) | .reassocReq => (0, 2) | .reassocResp => (0, 3)
  | .probeReq => (0, 4) | .probeResp => (0, 5) | .timingAd => (0, 6) | .beacon => (0, 8) | .atim => (0, 9)
  | .disassoc => (0, 10) | .auth => (0, 11) | .deauth => (0, 12) | .action => (0, 13) | .actionNoAck => (0, 14)
  | .rts => (1, 11) | .cts => (1, 12)

/-- frame-control octets: protocol version 0 (bits 0-1), type (bits 2-3), subtype (bits 4-7); no flags -/
def frameControl (k : Kind) : Bytes := [UInt8.ofNat (k.typeSubtype.1 * 4 + k.typeSubtype.2 * 16), 0]

structure Args where
  a1 : Bytes
  a2 : Bytes
  a3 : Bytes
  ap : Bytes
  ssid : Bytes
  ch : Nat
  alg : Nat
  seq : Nat
  status : Nat
  reason : Nat
  cat : Nat
  dur : Nat
  timingElem : Bytes
  country : Bytes
  mrp : Nat
  mtx : Nat
  txu : Nat
  nf : Nat
  /-- clock reading: seconds, nanoseconds -/
  sec : Nat
  nsec : Nat

/-- timestamp carried by beacons, probe responses and timing advertisements: microseconds -/
def timestamp (a : Args) : Nat := ((a.sec * 1000000000 + a.nsec) / 1000) % 2 ^ 64

/-- fixed fields, little-endian, in the standard's order -/
def fixed (k : Kind) (a : Args) : Bytes :=
  match k with
  | .beacon | .probeResp => leBytes 8 (timestamp a) ++ [0x64, 0] ++ [0x01, 0]
  | .assocReq => [0x01, 0] ++ [0x01, 0]
  | .reassocReq => [0x01, 0] ++ [0x01, 0] ++ a.ap
  | .assocResp | .reassocResp => [0x01, 0] ++ [0, 0] ++ [0, 0]
  | .auth => leBytes 2 a.alg ++ leBytes 2 a.seq ++ leBytes 2 a.status
  | .deauth | .disassoc => leBytes 2 a.reason
  | .action | .actionNoAck => [UInt8.ofNat a.cat]
  | .timingAd => leBytes 8 (timestamp a) ++ [0x64] ++ [0x64, 0] ++ [0x01, 0] ++ a.country ++ leBytes 2 a.mrp ++
      [UInt8.ofNat a.mtx, UInt8.ofNat a.txu, UInt8.ofNat a.nf]
  | _ => []

/-- elements every freshly created frame of the kind carries -/
def initialElems (k : Kind) (a : Args) : List Elem :=
  let ssid : Elem := ⟨0, a.ssid⟩
  let ds : Elem := ⟨3, [UInt8.ofNat a.ch]⟩
  match k with
  | .beacon | .probeReq | .probeResp | .assocReq | .reassocReq => [ssid, ds]
  | .assocResp => [ds, ⟨1, [0x82, 0x84, 0x8b, 0x96, 0x24, 0x30, 0x48, 0x6c]⟩]
  | .reassocResp => [ds]
  | .timingAd => [⟨69, a.timingElem⟩]
  | _ => []

/-- the serialised frame: frame control, zero duration (control frames: the requested one), the
addresses in the documented order, zero sequence control, fixed fields, then the elements (or
action details) in the order they were added -/
def frame (k : Kind) (a : Args) (elems : List Elem) (details : Bytes) : Bytes :=
  match k with
  | .rts => frameControl k ++ leBytes 2 a.dur ++ a.a2 ++ a.a1      -- receiver, then transmitter
  | .cts => frameControl k ++ leBytes 2 a.dur ++ a.a1
  | .atim => frameControl k ++ [0, 0] ++ a.a1 ++ a.a2 ++ a.a3 ++ [0, 0]
  | .action | .actionNoAck => frameControl k ++ [0, 0] ++ a.a1 ++ a.a2 ++ a.a3 ++ [0, 0] ++ fixed k a ++ details
  | _ => frameControl k ++ [0, 0] ++ a.a1 ++ a.a2 ++ a.a3 ++ [0, 0] ++ fixed k a ++ encode elems

/-- reference semantics of an edit on the element list; `none` = outside what the property fixes -/
def refEdit (es : List Elem) : EditOp → Option (List Elem)
  | .add n d => if n < 256 ∧ d.length ≤ 255 then some (es ++ [⟨UInt8.ofNat n, d⟩]) else none
  | .remove n => if noInnerEmpty es then some (es.eraseP (fun e => e.num.toNat == n)) else none
  | .set n d =>
    if noInnerEmpty es ∧ n < 256 ∧ d.length ≤ 255 then some (es.eraseP (fun e => e.num.toNat == n) ++ [⟨UInt8.ofNat n, d⟩]) else none
  | .check _ => some es

end LWV.Spec
